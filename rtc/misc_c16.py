"""C16: pattern dispatch picks a most specific rule, deterministically; the parametric subtype
relation is a pre-order that agrees with instance membership (bounded run-time contract).

Oracles: (a) the set of matching signatures and their specificity order are recomputed here from the
registered signatures (component-wise ``deep_issubclass`` as the brief prescribes, own handling of
variadic tails); (b) instance membership ``member(x, T)`` is a structural recursion written here
(isinstance / all / any) that never calls funsor.typing.
"""
import importlib
import itertools
import json
import os
import subprocess
import sys
import typing

sys.path.insert(0, __import__("os").environ.get("VERIF_REPO", "/repo"))
# allocation noise before funsor is imported: shifts object addresses, hence type hashes (the tie-breaker of
# multipledispatch's ordering) differ between the fresh processes of the determinism check
_NOISE = [object() for _ in range(int(os.environ.get("MISC_C16_NOISE", "0")))]
from collections import OrderedDict  # noqa: E402

import numpy as np  # noqa: E402
from multipledispatch.variadic import isvariadic  # noqa: E402

import funsor  # noqa: E402

funsor.set_backend("numpy")
for _m in ("adjoint", "affine", "approximations", "cnf", "constant", "delta", "gaussian", "integrate", "joint", "montecarlo", "optimizer", "precondition", "sum_product", "tensor", "terms", "elbo", "adam", "recipes", "factory", "distribution"):
    try:
        importlib.import_module("funsor." + _m)
    except Exception:  # optional module
        pass

from funsor import ops  # noqa: E402
from funsor.cnf import Contraction  # noqa: E402
from funsor.delta import Delta  # noqa: E402
from funsor.domains import Bint, Real, Reals  # noqa: E402
from funsor.gaussian import Gaussian  # noqa: E402
from funsor.interpretations import DispatchedInterpretation, StatefulInterpretation, lazy, reflect  # noqa: E402
from funsor.registry import KeyedRegistry, PartialDefault  # noqa: E402
from funsor.tensor import Tensor  # noqa: E402
from funsor.terms import Binary, Cat, Funsor, Lambda, Number, Reduce, Slice, Stack, Subs, Unary, Variable  # noqa: E402
from funsor.typing import (  # noqa: E402
    GenericTypeMeta,
    _RuntimeSubclassCheckMeta,
    deep_isinstance,
    deep_issubclass,
    deep_type,
    get_args,
    get_origin,
    typing_wrap,
)

Any = typing.Any
T = typing.Tuple
FS = typing.FrozenSet
U = typing.Union


# ---- registries --------------------------------------------------------------------------------------
def registries():
    found = OrderedDict()
    for modname in sorted(m for m in sys.modules if m.startswith("funsor")):
        mod = sys.modules[modname]
        for var in sorted(vars(mod)):
            val = vars(mod)[var]
            reg, label = None, None
            if isinstance(val, DispatchedInterpretation):
                reg = val.registry
                label = "interp:" + (val.__name__ if val.__name__ != "dispatched" else modname + "." + var)
            elif isinstance(val, KeyedRegistry):
                reg, label = val, "registry:" + modname + "." + var
            elif isinstance(val, type) and issubclass(val, StatefulInterpretation) and "registry" in vars(val):
                reg, label = val.registry, "stateful:" + val.__name__
            if reg is not None and id(reg) not in found and reg.registry:
                found[id(reg)] = (label, reg)
    out = OrderedDict()
    for label, reg in found.values():
        k = label
        i = 2
        while k in out:
            k = "%s#%d" % (label, i)
            i += 1
        out[k] = reg
    return out


def unwrap(w):
    if isinstance(w, _RuntimeSubclassCheckMeta):
        return w.__args__[0]
    return w


def le(a, b):
    """a at least as specific as b, for (possibly wrapped) signature components."""
    a, b = unwrap(a), unwrap(b)
    try:
        return bool(deep_issubclass(a, b))
    except TypeError:
        try:
            return bool(deep_issubclass(get_origin(a), b))
        except TypeError:
            return False


def vtypes(v):
    return tuple(v.variadic_type) if isinstance(v.variadic_type, tuple) else (v.variadic_type,)


def split(sig):
    """(fixed prefix, variadic member types or None)"""
    if sig and isvariadic(sig[-1]):
        return tuple(sig[:-1]), vtypes(sig[-1])
    return tuple(sig), None


def matches(types, sig):
    fixed, var = split(sig)
    if var is None:
        return len(types) == len(fixed) and all(le(t, s) for t, s in zip(types, fixed))
    if len(types) < len(fixed):
        return False
    if not all(le(t, s) for t, s in zip(types, fixed)):
        return False
    return all(any(le(t, v) for v in var) for t in types[len(fixed) :])


def sig_le(s1, s2):
    """Every type tuple matching s1 matches s2 (component-wise criterion)."""
    f1, v1 = split(s1)
    f2, v2 = split(s2)
    if v2 is None:
        return v1 is None and len(f1) == len(f2) and all(le(a, b) for a, b in zip(f1, f2))
    if len(f1) < len(f2):
        return False
    if not all(le(a, b) for a, b in zip(f1, f2)):
        return False
    if not all(any(le(a, v) for v in v2) for a in f1[len(f2) :]):
        return False
    if v1 is not None and not all(any(le(a, v) for v in v2) for a in v1):
        return False
    return True


def func_id(fn):
    if isinstance(fn, PartialDefault):
        return "<default>"
    f = fn
    for _ in range(5):
        if hasattr(f, "__wrapped__"):
            f = f.__wrapped__
    code = getattr(f, "__code__", None)
    if code is None:
        return repr(type(fn).__name__)
    return "%s:%s:%d" % (getattr(f, "__module__", "?"), getattr(f, "__qualname__", "?"), code.co_firstlineno)


def sig_str(sig):
    return "(" + ", ".join(repr(unwrap(s)) if not isvariadic(s) else "Variadic" + repr(tuple(unwrap(t) for t in vtypes(s))) for s in sig) + ")"


def synth_types(sig):
    """Argument type tuples synthesised from a signature: the signature itself, variadic tail expanded 0..2 times."""
    fixed, var = split(sig)
    if var is None:
        return [tuple(fixed)]
    out = []
    for n in (0, 1, 2):
        for combo in itertools.product(var, repeat=n):
            out.append(tuple(fixed) + tuple(combo))
    return out[:8]


def clear_caches(regs):
    deep_issubclass.cache_clear()
    for reg in regs.values():
        for disp in reg.registry.values():
            disp._cache.clear()
            try:
                del disp._ordering
            except AttributeError:
                pass


def dispatch_cases(regs):
    """[(reg label, key class name, types tuple)] for every registered signature (sorted, stable)."""
    cases = []
    for label, reg in regs.items():
        for key in sorted(reg.registry, key=lambda k: k.__name__):
            disp = reg.registry[key]
            seen = set()
            for sig in sorted(disp.funcs, key=sig_str):
                for types in synth_types(sig):
                    r = sig_str(types)
                    if r in seen:
                        continue
                    seen.add(r)
                    cases.append((label, key, types))
    return cases


def choose(reg, key, types):
    disp = reg.registry[key]
    import warnings

    with warnings.catch_warnings():
        warnings.simplefilter("ignore")
        fn = disp.dispatch(*[typing_wrap(unwrap(t)) if not isinstance(t, (GenericTypeMeta,)) else t for t in types])
    return fn


def check_dispatch_case(reg, label, key, types, origin="signature"):
    """-> (status, detail, tags)  status in ok / ambiguous / violation"""
    disp = reg.registry[key]
    fn = choose(reg, key, types)
    M = [s for s in disp.funcs if matches(types, s)]
    if fn is None:
        if M:
            return "violation", "no rule dispatched although %s match" % [sig_str(s) for s in M], ["dispatch", "none_chosen", label, key.__name__]
        return "ok", "", []
    chosen = [s for s in M if disp.funcs[s] is fn]
    if not chosen:
        return "violation", "dispatched rule %s has no matching signature for %s; matching: %s" % (func_id(fn), sig_str(types), [sig_str(s) for s in M]), ["dispatch", "chosen_does_not_match", label, key.__name__]
    if any(all(sig_le(c, s) for s in M) for c in chosen):
        return "ok", "", []
    # is there a strictly more specific matching signature with another rule?
    better = [s for s in M if disp.funcs[s] is not fn and any(sig_le(s, c) and not sig_le(c, s) for c in chosen) and all(sig_le(s, c) or not sig_le(c, s) for c in chosen)]
    strictly = [s for s in M if disp.funcs[s] is not fn and all(sig_le(s, c) and not sig_le(c, s) for c in chosen)]
    if strictly:
        return (
            "violation",
            "%s %s%s: dispatched %s (signature %s) although %s is strictly more specific and matches" % (label, key.__name__, sig_str(types), func_id(fn), [sig_str(c) for c in chosen], [sig_str(s) for s in strictly]),
            ["dispatch", "not_most_specific", label, key.__name__],
        )
    return "ambiguous", "%s %s%s: %s vs incomparable %s" % (label, key.__name__, sig_str(types), [sig_str(c) for c in chosen], [sig_str(s) for s in M if not any(sig_le(c, s) for c in chosen)]), ["dispatch", "ambiguous", label, key.__name__]


# ---- real terms ---------------------------------------------------------------------------------------
def real_term_args():
    """(class, args) of real lazy terms and their sub-terms, built under reflect/lazy."""
    t3 = Tensor(np.arange(3.0), OrderedDict(i=Bint[3]))
    t32 = Tensor(np.arange(6.0).reshape(3, 2), OrderedDict(i=Bint[3], j=Bint[2]))
    tv = Tensor(np.arange(6.0).reshape(3, 2), OrderedDict(i=Bint[3]))
    n1, n2 = Number(1.5), Number(2, 3)
    x, y = Variable("x", Real), Variable("y", Reals[2])
    i = Variable("i", Bint[3])
    g = Gaussian(mean=np.zeros((3, 1)), precision=np.ones((3, 1, 1)), inputs=OrderedDict(i=Bint[3], x=Real))
    d = Delta("x", Tensor(np.arange(3.0), OrderedDict(i=Bint[3])))
    k = Variable("k", Bint[2])
    builders = [
        lambda: t3 + n1, lambda: n1 + t3, lambda: t3 * t32, lambda: x + n1, lambda: x * t3, lambda: -t3, lambda: t3.exp(), lambda: x.log(),
        lambda: (t3 + x).reduce(ops.add, "i"), lambda: t32.reduce(ops.logaddexp, frozenset({"i", "j"})),
        lambda: t3(i=i), lambda: t32(i="j2"), lambda: x(x=n1), lambda: x + y.sum(), lambda: Stack("k", (t3, t3 + n1)), lambda: Cat("i", (t3, t3)),
        lambda: Lambda(i, t3), lambda: tv[0], lambda: tv[k], lambda: y[0],
        lambda: g + t3, lambda: (g + t3).reduce(ops.logaddexp, "x"), lambda: g(x=n1), lambda: d + g, lambda: (d + t3).reduce(ops.logaddexp, "x"),
        lambda: t3 < n1, lambda: t3.sum(), lambda: tv.sum(), lambda: n1 - Number(2.0), lambda: n2 + Number(1, 3), lambda: ops.max(t3, n1),
        lambda: Contraction(ops.add, ops.mul, frozenset({i}), t3, t32), lambda: Contraction(ops.null, ops.add, frozenset(), t3, x, n1), lambda: Slice("s", 0, 3, 1, 3),
    ]
    roots = []
    with reflect:
        for bld in builders:
            try:
                roots.append(bld())
            except Exception:
                pass
    out, seen = [], set()

    def walk(f):
        if not isinstance(f, Funsor) or id(f) in seen:
            return
        seen.add(id(f))
        out.append((get_origin(type(f)), tuple(f._ast_values)))
        for a in f._ast_values:
            if isinstance(a, Funsor):
                walk(a)
            elif isinstance(a, tuple):
                for b in a:
                    if isinstance(b, Funsor):
                        walk(b)
                    elif isinstance(b, tuple):
                        for c in b:
                            walk(c) if isinstance(c, Funsor) else None

    for r in roots:
        walk(r)
    return out, roots


# ---- type pool -------------------------------------------------------------------------------------------
def type_pool(tier):
    base = [
        Any, object, int, float, str, bool, tuple, frozenset, type(None),
        Funsor, Number, Tensor, Variable, Binary, Unary, Reduce, Contraction, Subs, Stack, Gaussian, Delta,
        ops.Op, ops.AssociativeOp, ops.AddOp, ops.MulOp, ops.BinaryOp, ops.UnaryOp, ops.NegOp, ops.LogaddexpOp,
        Binary[ops.AddOp, Tensor, Number], Binary[ops.AddOp, Funsor, Funsor], Binary[ops.Op, Funsor, Funsor], Binary[ops.AssociativeOp, Tensor, Tensor],
        Binary[Any, Any, Any], Binary[ops.AddOp, Number, Tensor], Unary[ops.NegOp, Tensor], Unary[ops.Op, Funsor], Unary[Any, Any],
        Reduce[ops.AddOp, Tensor, FS[Variable]], Reduce[ops.AssociativeOp, Funsor, frozenset], Reduce[Any, Any, Any],
        T, T[int], T[int, int], T[Any], T[Any, Any], T[int, ...], T[Any, ...], T[Funsor, ...], T[Tensor, ...], T[Tensor, Number], T[Funsor, Funsor], T[bool], T[bool, int],
        T[T[int], str], T[T[int, ...], str], T[T, str], T[str, ...],
        FS, FS[int], FS[str], FS[Any], FS[Variable], FS[Funsor], FS[bool],
        U[int, str], U[Tensor, Number], U[int, float, str], U[T[int], T[str]], U[bool, str], U[Funsor, int], typing.Optional[int],
    ]
    if tier != "quick":
        more = [
            complex, bytes, list, dict, np.ndarray,
            Lambda, Cat, Slice, ops.SubOp, ops.ExpOp, ops.TransformOp, ops.MaxOp, ops.ReductionOp, ops.SumOp, ops.GetitemOp,
            Number[int, int] if False else Binary[ops.SubOp, Funsor, Funsor], Binary[ops.MulOp, Tensor, Tensor], Binary[ops.AddOp, Tensor, Tensor], Binary[ops.AddOp, Variable, Number],
            Binary[U[ops.AddOp, ops.MulOp], Funsor, Funsor], Binary[ops.Op, U[Tensor, Number], Funsor], Binary[ops.AddOp, Binary[ops.AddOp, Funsor, Funsor], Funsor], Binary[ops.AddOp, Binary, Funsor],
            Unary[ops.ExpOp, Funsor], Unary[ops.NegOp, Funsor], Unary[ops.TransformOp, Tensor], Unary[ops.NegOp, Binary[ops.AddOp, Tensor, Number]],
            Reduce[ops.LogaddexpOp, Funsor, frozenset], Reduce[ops.AddOp, Funsor, FS], Reduce[ops.AddOp, Binary, FS[Variable]],
            Contraction[ops.AddOp, ops.MulOp, frozenset, T[Funsor, ...]], Contraction[Any, Any, Any, T[Tensor, Tensor]], Contraction[ops.AssociativeOp, ops.AssociativeOp, frozenset, T],
            Stack[str, T[Funsor, ...]], Stack[str, T[Tensor, ...]], Stack[str, T], Subs[Funsor, T], Subs[Tensor, T[T[str, Funsor], ...]],
            T[float], T[float, float], T[int, float], T[int, int, int], T[Any, Any, Any], T[float, ...], T[object, ...], T[Number, ...], T[Variable, ...], T[U[int, str], ...], T[U[Tensor, Number], ...],
            T[Number, Tensor], T[Tensor, Tensor], T[Funsor, Funsor, Funsor], T[T[str, Funsor], ...], T[T[str, Tensor]], T[T[str, Tensor], T[str, Number]], T[T[Any, ...], ...], T[FS[int], int], T[FS, ...],
            T[str], T[str, str], T[str, int], T[ops.Op, Funsor],
            FS[float], FS[T[int]], FS[T[int, ...]], FS[T], FS[U[int, str]], FS[Tensor], FS[Number], FS[object],
            U[int, float], U[Tensor, Variable], U[T, FS], U[T[int, ...], FS[int]], U[Number, Tensor, Variable], U[Funsor, T[Funsor, ...]], U[Binary, Unary], U[Binary[ops.AddOp, Funsor, Funsor], Unary[ops.NegOp, Funsor]],
            typing.Optional[Funsor], typing.Optional[T[int]],
        ]
        base += more
    # de-duplicate preserving order
    out, seen = [], set()
    for t in base:
        if id(t) in seen:
            continue
        seen.add(id(t))
        out.append(t)
    return out


def kind(t):
    if t is Any:
        return "Any"
    o = typing.get_origin(t)
    if o is typing.Union or t is typing.Union:
        return "Union"
    if o is tuple or t is typing.Tuple:
        return "Tuple"
    if o is frozenset or t is typing.FrozenSet:
        return "FrozenSet"
    if isinstance(t, GenericTypeMeta):
        return "generic[...]" if getattr(t, "__args__", ()) else "generic"
    return "class"


def tname(t):
    try:
        return repr(t).replace("typing.", "")
    except Exception:
        return str(t)


def rel(a, b, wrapped=False):
    """deep_issubclass(a, b) -> True / False / 'raise:<Type>'.
    wrapped=True: the relation exactly as multipledispatch evaluates it during matching,
    ``issubclass(typing_wrap(a), typing_wrap(b))``."""
    try:
        if wrapped:
            return bool(issubclass(typing_wrap(a), typing_wrap(b)))
        return bool(deep_issubclass(a, b))
    except Exception as e:
        return "raise:" + type(e).__name__


# ---- independent membership oracle ------------------------------------------------------------------------
def member(x, tp):
    """Structural instance membership; never calls funsor.typing.deep_*."""
    if tp is Any or tp is object:
        return True
    org = typing.get_origin(tp)
    if org is typing.Union:
        return any(member(x, a) for a in typing.get_args(tp))
    if org is tuple or tp is typing.Tuple:
        if not isinstance(x, tuple):
            return False
        args = typing.get_args(tp)
        if not args:
            return True
        if args[-1] is Ellipsis:
            return all(member(e, args[0]) for e in x)
        if args == ((),):
            return len(x) == 0
        return len(x) == len(args) and all(member(e, a) for e, a in zip(x, args))
    if org is frozenset or tp is typing.FrozenSet:
        if not isinstance(x, frozenset):
            return False
        args = typing.get_args(tp)
        if not args:
            return True
        return all(member(e, args[0]) for e in x)
    if isinstance(tp, GenericTypeMeta) and getattr(tp, "__args__", ()):
        base = tp.__origin__
        if not isinstance(x, base):
            return False
        vals = getattr(x, "_ast_values", None)
        if vals is None or len(vals) != len(tp.__args__):
            return False
        return all(member(v, a) for v, a in zip(vals, tp.__args__))
    return isinstance(x, tp)


def object_pool(roots, term_args):
    objs = [1, 2.5, "a", True, None, (), (1,), (1, 2), (1, "a"), ((1,), "a"), (1, 2, 3), (True,), (1.5, 2.5), frozenset(), frozenset({1, 2}), frozenset({"a"}), (frozenset({1}), 2), ("a", "b")]
    objs += list(roots)
    for cls, args in term_args[:60]:
        for a in args:
            if isinstance(a, (tuple, frozenset)) and not any(a is o for o in objs):
                objs.append(a)
    objs += [ops.add, ops.neg, ops.logaddexp]
    return objs


# ---- sub-checks -----------------------------------------------------------------------------------------------
def check_axioms(tier):
    ev, vi, de, meta, nt = [], [], 0, {}, 0
    for wrapped in (False, True):
        e, v, d, m, n = _check_axioms(tier, wrapped)
        ev += e
        vi += v
        de += d
        nt += n
        meta["wrapped_as_in_dispatch" if wrapped else "raw"] = m
    return ev, vi, de, meta, nt


def _check_axioms(tier, wrapped):
    """returns (evals, viol, declined, meta)"""
    vtag = "wrapped" if wrapped else "raw"
    _rel = globals()["rel"]

    def rel(a, b):
        return _rel(a, b, wrapped)

    pool = type_pool(tier)
    n = len(pool)
    M = np.zeros((n, n), dtype=bool)
    R = np.zeros((n, n), dtype=bool)
    evals, viol, declined = [], [], 0
    raised = []
    for a in range(n):
        for b in range(n):
            r = rel(pool[a], pool[b])
            if r is True:
                M[a, b] = True
            elif r is not False:
                R[a, b] = True
                declined += 1
                raised.append((tname(pool[a]), tname(pool[b]), r))
    for a in range(n):
        evals.append(("subtype_reflexive", (vtag, tname(pool[a])), True))
        if not M[a, a]:
            viol.append(("subtype_reflexive", "deep_issubclass(%s, %s) = %s" % (tname(pool[a]), tname(pool[a]), rel(pool[a], pool[a])), ("reflexive", vtag, kind(pool[a]))))
    # transitivity over all triples (vectorised; every triple with A<=B and B<=C is one evaluation)
    two = (M.astype(np.int32) @ M.astype(np.int32)) > 0
    ntrip = int((M.astype(np.int64).sum(axis=0) * M.astype(np.int64).sum(axis=1)).sum())
    bad = two & ~M
    if not wrapped:
        bad &= ~R  # a raising pair is outside the domain of the raw relation (counted as declined)
    for a, c in zip(*np.nonzero(bad)):
        bs = [b for b in range(n) if M[a, b] and M[b, c]]
        b = bs[0]
        viol.append(
            (
                "subtype_transitive",
                "%s <= %s and %s <= %s but deep_issubclass(%s, %s) = %s (%d witnesses)" % (tname(pool[a]), tname(pool[b]), tname(pool[b]), tname(pool[c]), tname(pool[a]), tname(pool[c]), rel(pool[a], pool[c]), len(bs)),
                ("transitive", vtag, "raises" if R[a, c] else "false", kind(pool[a]), kind(pool[b]), kind(pool[c])),
            )
        )
    meta = dict(pool_size=n, pairs=n * n, related_pairs=int(M.sum()), triples_all=n**3, triples_with_premise=ntrip, pairs_raising=len(raised), pairs_raising_examples=raised[:6])
    return evals, viol, declined, meta, ntrip


def check_membership(tier):
    term_args, roots = real_term_args()
    pool = type_pool(tier)
    objs = object_pool(roots, term_args)
    evals, viol, declined = [], [], 0
    for oi, x in enumerate(objs):
        try:
            dt = deep_type(x)
        except NotImplementedError:
            declined += 1
            continue
        xs = (repr(x)[:60] if not isinstance(x, Funsor) else type(x).__name__ + "#%d" % oi)
        evals.append(("instance_of_own_deep_type", xs, True))
        try:
            ok = deep_isinstance(x, dt)
        except Exception as e:
            ok = "raise:" + type(e).__name__
        if ok is not True:
            viol.append(("instance_of_own_deep_type", "deep_isinstance(%s, deep_type(x)=%s) = %s" % (xs, tname(dt), ok), ("own_type", type(x).__name__)))
        for tp in pool:
            up = rel(dt, tp)
            try:
                inst = bool(deep_isinstance(x, tp))
            except Exception as e:
                declined += 1
                continue
            if up is True:
                evals.append(("instance_of_every_generalisation", (xs, tname(tp)), True))
                if not inst:
                    viol.append(("instance_of_every_generalisation", "deep_type(x)=%s <= %s but deep_isinstance(x, T) is False; x=%s" % (tname(dt), tname(tp), xs), ("upward", type(x).__name__)))
            try:
                mem = member(x, tp)
            except Exception:
                declined += 1
                continue
            evals.append(("isinstance_agrees_with_membership", (xs, tname(tp)), True))
            if inst and not mem:
                viol.append(("isinstance_agrees_with_membership", "deep_isinstance(%s, %s) is True but x is not a member" % (xs, tname(tp)), ("membership", "unsound", kind(tp), type(x).__name__)))
            elif mem and not inst:
                viol.append(
                    ("isinstance_agrees_with_membership", "%s is a member of %s but deep_isinstance is False (deep_type(x)=%s)" % (xs, tname(tp), tname(dt)), ("membership", "incomplete", kind(tp), type(x).__name__, "empty" if isinstance(x, (tuple, frozenset)) and len(x) == 0 else "nonempty"))
                )
    # every real term's class is origin[deep_type(args)] (reflect's specialisation)
    for cls, args in term_args:
        try:
            want = cls[tuple(map(deep_type, args))]
        except Exception:
            declined += 1
            continue
        with reflect:
            t = cls(*args)
        evals.append(("term_class_is_origin_of_deep_types", (cls.__name__, tname(want)), True))
        if type(t) is not want and "__BOUND" not in repr(t):
            viol.append(("term_class_is_origin_of_deep_types", "type(term)=%s expected %s" % (tname(type(t)), tname(want)), ("term_class", cls.__name__)))
    # ... also after reinterpretation: children that evaluate change kind (Binary of Tensors -> Tensor), the parent that stays
    # lazy must be re-specialised to the NEW children (reinterpret hands reflect an already specialised class)
    from funsor.interpreter import reinterpret
    from funsor.interpretations import lazy as lazy_interp

    t1 = Tensor(np.arange(3.0), OrderedDict(i=Bint[3]))
    t2 = Tensor(np.arange(3.0) + 1, OrderedDict(i=Bint[3]))
    xr, yr = Variable("x", Real), Variable("y", Reals[2])
    lazy_builders = [
        lambda: ((t1 + t2) + xr).exp(), lambda: ((t1 * t2) * xr).log(), lambda: (t1 + t2)(i="j") + xr, lambda: ((t1 + t2).reduce(ops.add, "i") + xr).exp(),
        lambda: Stack("k", (t1 + t2, t1 + xr)), lambda: ((t1 + t2) + yr.sum()).reduce(ops.add, "i"), lambda: (-(t1 + t2)) * xr, lambda: Lambda(Variable("i", Bint[3]), (t1 + t2) + xr),
    ]
    for bi, bld in enumerate(lazy_builders):
        try:
            with lazy_interp:
                e = bld()
            r = reinterpret(e)
        except Exception:
            declined += 1
            continue
        seen = set()

        def walk2(f):
            if not isinstance(f, Funsor) or id(f) in seen:
                return
            seen.add(id(f))
            yield f
            for a in f._ast_values:
                for b in (a if isinstance(a, tuple) else (a,)):
                    for c in (b if isinstance(b, tuple) else (b,)):
                        if isinstance(c, Funsor):
                            yield from walk2(c)

        for f in walk2(r):
            try:
                want = get_origin(type(f))[tuple(map(deep_type, f._ast_values))]
            except Exception:
                declined += 1
                continue
            evals.append(("term_class_is_origin_of_deep_types", ("reinterpreted", bi, get_origin(type(f)).__name__), True))
            if type(f) is not want and "__BOUND" not in repr(f):
                viol.append(("term_class_is_origin_of_deep_types", "after reinterpret: type(term)=%s but its arguments have deep types %s" % (tname(type(f)), tname(want)), ("term_class", "reinterpreted", get_origin(type(f)).__name__)))
    return evals, viol, declined, dict(objects=len(objs), real_term_nodes=len(term_args))


def run_dispatch(shuffle_seed, with_real=True):
    """-> (choices {case key: rule id}, statuses, evals, viol)"""
    regs = registries()
    cases = dispatch_cases(regs)
    keys = ["%s|%s|%s" % (label, key.__name__, sig_str(types)) for label, key, types in cases]
    order = list(range(len(cases)))
    rs = np.random.RandomState(shuffle_seed)
    rs.shuffle(order)
    clear_caches(regs)
    choices, status = {}, {}
    for idx in order:
        label, key, types = cases[idx]
        fn = choose(regs[label], key, types)
        choices[keys[idx]] = func_id(fn) if fn is not None else "<none>"
    real = {}
    if with_real:
        term_args, _ = real_term_args()
        for label, reg in regs.items():
            if not label.startswith("interp:"):
                continue
            for n, (cls, args) in enumerate(term_args):
                if get_origin(cls) not in reg.registry:
                    continue
                try:
                    fn = reg.dispatch(cls, *args)
                except Exception as e:
                    real["%s|%s|term%d" % (label, cls.__name__, n)] = "raise:" + type(e).__name__
                    continue
                real["%s|%s|term%d" % (label, cls.__name__, n)] = func_id(fn)
    return choices, real


def check_dispatch(tier):
    regs = registries()
    cases = dispatch_cases(regs)
    evals, viol, amb = [], [], []
    for label, key, types in cases:
        st, detail, tags = check_dispatch_case(regs[label], label, key, types)
        k = "%s|%s|%s" % (label, key.__name__, sig_str(types))
        evals.append(("dispatch_most_specific", k, True))
        if st == "violation":
            viol.append(("dispatch_most_specific", detail, tuple(tags)))
        elif st == "ambiguous":
            amb.append((k, detail))
    # real terms through the public dispatch path
    term_args, _ = real_term_args()
    nreal = 0
    for label, reg in regs.items():
        if not label.startswith("interp:"):
            continue
        for n, (cls, args) in enumerate(term_args):
            if get_origin(cls) not in reg.registry:
                continue
            types = tuple(typing_wrap(deep_type(a)) for a in args)
            disp = reg.registry[get_origin(cls)]
            fn = reg.dispatch(cls, *args)
            M = [s for s in disp.funcs if matches(types, s)]
            chosen = [s for s in M if disp.funcs[s] is fn]
            k = "%s|%s|term%d %s" % (label, cls.__name__, n, sig_str(types))
            evals.append(("dispatch_most_specific", k, True))
            nreal += 1
            if not chosen:
                viol.append(("dispatch_most_specific", "real term %s: dispatched %s which has no matching signature; matching %s" % (k, func_id(fn), [sig_str(s) for s in M]), ("dispatch", "chosen_does_not_match", label, cls.__name__, "real_term")))
            elif not any(all(sig_le(c, s) for s in M) for c in chosen):
                strictly = [s for s in M if disp.funcs[s] is not fn and all(sig_le(s, c) and not sig_le(c, s) for c in chosen)]
                if strictly:
                    viol.append(("dispatch_most_specific", "real term %s: dispatched %s %s although %s is strictly more specific" % (k, func_id(fn), [sig_str(c) for c in chosen], [sig_str(s) for s in strictly]), ("dispatch", "not_most_specific", label, cls.__name__, "real_term")))
                else:
                    amb.append((k, "real term: %s vs %s" % ([sig_str(c) for c in chosen], [sig_str(s) for s in M if not any(sig_le(c, s) for c in chosen)])))
    # ordering is a topological order of strict specificity
    for label, reg in regs.items():
        for key, disp in reg.registry.items():
            import warnings

            with warnings.catch_warnings():
                warnings.simplefilter("ignore")
                order = list(disp.ordering)
            pos = {s: i for i, s in enumerate(order)}
            evals.append(("ordering_is_topological", "%s|%s" % (label, key.__name__), True))
            for a in order:
                for b in order:
                    if a is not b and sig_le(a, b) and not sig_le(b, a) and pos[a] > pos[b] and any(matches(t, a) for t in synth_types(a)):
                        viol.append(("ordering_is_topological", "%s %s: %s is strictly more specific than %s but ordered after it" % (label, key.__name__, sig_str(a), sig_str(b)), ("ordering", label, key.__name__)))
    return evals, viol, amb, dict(registries=len(regs), dispatchers=sum(len(r.registry) for r in regs.values()), signatures=sum(len(d.funcs) for r in regs.values() for d in r.registry.values()), synthesised_type_tuples=len(cases), real_term_dispatches=nreal)


def check_determinism(tier, seed):
    """In-process: after cache clearing and in 3 shuffled first-use orders; cross-process: 3 fresh interpreters
    with different hash seeds, allocation noise before import, and different orders."""
    evals, viol = [], []
    base, base_real = run_dispatch(seed)
    runs = [("in-process shuffle %d" % k, run_dispatch(seed + 1 + k)) for k in range(3)]
    nproc = 3 if tier == "quick" else 5
    for k in range(nproc):
        env = dict(os.environ, PYTHONHASHSEED=str(101 + k), MISC_C16_NOISE=str(1000 * (k + 1) + 7))
        p = subprocess.run([sys.executable, os.path.abspath(__file__), "--dump", str(seed + 10 + k)], env=env, capture_output=True, text=True, timeout=600)
        line = [ln for ln in p.stdout.splitlines() if ln.startswith("{")]
        if not line:
            viol.append(("dispatch_deterministic", "subprocess failed: %s" % p.stderr[-400:], ("determinism", "subprocess_failed")))
            continue
        d = json.loads(line[-1])
        runs.append(("fresh process %d" % k, (d["choices"], d["real"])))
    for k in base:
        evals.append(("dispatch_deterministic", k, True))
        for rn, (ch, _) in runs:
            if ch.get(k) != base[k]:
                viol.append(("dispatch_deterministic", "%s: %s in the reference run, %s in %s" % (k, base[k], ch.get(k), rn), ("determinism", "cross_process" if "process" in rn and "in-process" not in rn else "in_process", k.split("|")[0], k.split("|")[1])))
                break
    for k in base_real:
        evals.append(("dispatch_deterministic", k, True))
        for rn, (_, rl) in runs:
            if rl.get(k) != base_real[k]:
                viol.append(("dispatch_deterministic", "real term %s: %s vs %s in %s" % (k, base_real[k], rl.get(k), rn), ("determinism", "real_term", k.split("|")[0], k.split("|")[1])))
                break
    return evals, viol, dict(in_process_shuffles=3, fresh_processes=nproc)


def check_case(case):
    part = case["part"]
    if part == "axioms":
        return check_axioms(case["tier"])[1]
    if part == "membership":
        return check_membership(case["tier"])[1]
    if part == "dispatch":
        return check_dispatch(case["tier"])[1]
    if part == "determinism":
        return check_determinism(case["tier"], case.get("seed", 0))[1]
    raise KeyError(part)


def work(case):
    from common import RtcResult

    import misc_util

    res = RtcResult("C16", "drv_misc")
    part, tier, seed = case["part"], case["tier"], case.get("seed", 0)
    if part == "axioms":
        evals, viol, declined, meta, ntrip = check_axioms(tier)
        res.declined += declined
        res.bounds["axioms"] = meta
        # triples: counted in bulk (one evaluation per triple satisfying the premise)
        res.evaluations += ntrip
        res.contracts["subtype_transitive"] += ntrip
        res._distinct.add("transitive-triples-%d" % ntrip)
    elif part == "membership":
        evals, viol, declined, meta = check_membership(tier)
        res.declined += declined
        res.bounds["membership"] = meta
    elif part == "dispatch":
        evals, viol, amb, meta = check_dispatch(tier)
        res.bounds["dispatch"] = meta
        res.bounds["ambiguous_type_tuples"] = len(amb)
        res.bounds["ambiguous_examples"] = [a[1][:300] for a in amb[:5]]
    else:
        evals, viol, meta = check_determinism(tier, seed)
        res.bounds["determinism"] = meta
    for c, key, nt in evals:
        res.evaluated(c, (c, key), nt, sample=dict(contract=c, case=key) if len(res.samples) < 2 else None)
    for c, d, tags in viol:
        root = [t for t in tags]
        misc_util.add_failure(res, c, dict(case, failing=d[:400]), d, lambda: misc_util.module_replay(sys.modules[__name__], case, contract=c, tags=root), root, [], cap=2)
    return res


def run(res, tier, seed, jobs):
    import misc_util

    cases = [dict(part=p, tier=tier, seed=seed) for p in ("axioms", "membership", "dispatch", "determinism")]
    for r in misc_util.pmap(work, cases, jobs):
        res.merge(r)
        misc_util.merge_counts(res, r)
        for k in ("axioms", "membership", "dispatch", "determinism", "ambiguous_type_tuples", "ambiguous_examples"):
            if k in r.bounds:
                res.bounds[k] = r.bounds[k]
    misc_util.cap_failures(res, cap=2)
    res.bounds["nontrivial_rule"] = "every evaluation (reflexivity per type, transitivity per triple satisfying the premise, membership per (object, type), dispatch per type tuple)"
    res.bounds["synthesis"] = "per registered signature: the signature itself; a variadic tail expanded to 0, 1 and 2 arguments (all member types); plus real lazy terms and all their sub-terms"
    res.exhaustive = True
    res.notes.append("ambiguous (incomparable matching signatures) type tuples are reported only when the choice changes across cache clearing, shuffled first-use order or fresh processes")
    return res


if __name__ == "__main__" and len(sys.argv) >= 3 and sys.argv[1] == "--dump":
    ch, rl = run_dispatch(int(sys.argv[2]))
    print(json.dumps(dict(choices=ch, real=rl)))
    sys.exit(0)
