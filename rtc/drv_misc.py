"""Bounded run-time contract driver for C07, C15, C16, C17, C18, C19, C20 (tier B of DESIGN 2.5).

One helper module per property (``misc_cXX.py``); every helper is stand-alone (imports only funsor
from /repo, numpy, stdlib) so that its source + a footer is the replay script of a failure.
"""
import importlib
import json
import os
import sys
import time

HERE = os.path.dirname(os.path.abspath(__file__))
if HERE not in sys.path:
    sys.path.insert(0, HERE)
if os.environ.get("VERIF_REPO", "/repo") not in sys.path:
    sys.path.insert(0, os.environ.get("VERIF_REPO", "/repo"))

from common import RtcResult  # noqa: E402

PROPERTIES = ["C07", "C15", "C16", "C17", "C18", "C19", "C20"]


def run(prop_id, tier="quick", seed=0, jobs=16):
    assert prop_id in PROPERTIES, prop_id
    assert tier in ("quick", "thorough"), tier
    mod = importlib.import_module("misc_" + prop_id.lower())
    res = RtcResult(prop_id, "drv_misc")
    res.t0 = time.time()
    mod.run(res, tier, int(seed), int(jobs))
    res.bounds.setdefault("tier", tier)
    res.bounds.setdefault("seed", seed)
    return res


if __name__ == "__main__":
    pid = sys.argv[1]
    tier = sys.argv[2] if len(sys.argv) > 2 else "quick"
    seed = int(sys.argv[3]) if len(sys.argv) > 3 else 0
    r = run(pid, tier, seed)
    print(json.dumps(r.to_json()))
    seen = set()
    for f in r.failures:
        seen.add((f["contract"], tuple(f.get("root", f["tags"]))))
        print("FAILURE", json.dumps(dict(contract=f["contract"], tags=f["tags"], case=f["case"], detail=f["detail"][:600]))[:1600])
    print("failure records:", len(r.failures), "distinct (contract, root tags):", len(seen))
