"""Bounded stand-in tier (DESIGN 2.5): shared result/record types for run-time contract drivers.

A driver module ``rtc/drv_<name>.py`` exposes

    PROPERTIES = ["C08", ...]            # property ids it serves
    def run(prop_id, tier, seed, jobs=16) -> RtcResult

and evaluates sidecar contracts (precondition / postcondition against an independent oracle) on the
REAL functions of /repo, driven by exhaustive small-scope enumeration.  Nothing here is a proof; the
numbers are reported under ``bounded`` in the evidence and never added to ``discharged``.
"""
import os as _os
import sys as _sys

# the repository under test: /repo, or a scratch copy of it when a helper run sets VERIF_REPO; every driver imports this
# module first, so the path is fixed before anything imports funsor
if _os.environ.get("VERIF_REPO", "/repo") not in _sys.path[:1]:
    _sys.path.insert(0, _os.environ.get("VERIF_REPO", "/repo"))

import hashlib
import json
import math
import time
from collections import Counter

import numpy as np

RTOL = 1e-6
ATOL = 1e-8


def close(a, b, rtol=RTOL, atol=ATOL):
    """Tolerance of the contracts (fixed; never tuned to silence a report).
    inf/-inf/nan are compared structurally."""
    a = np.asarray(a)
    b = np.asarray(b)
    if a.shape != b.shape:
        try:
            a, b = np.broadcast_arrays(a, b)
        except ValueError:
            return False
    if a.dtype == object or b.dtype == object:
        return bool(np.all(a == b))
    if a.dtype.kind in "biu" and b.dtype.kind in "biu":
        return bool(np.array_equal(a, b))
    a = a.astype(float)
    b = b.astype(float)
    fin = np.isfinite(a) & np.isfinite(b)
    if not np.array_equal(np.isnan(a), np.isnan(b)):
        return False
    nonfin = ~fin & ~np.isnan(a)
    if not np.array_equal(a[nonfin], b[nonfin]):
        return False
    return bool(np.all(np.abs(a[fin] - b[fin]) <= atol + rtol * np.maximum(np.abs(a[fin]), np.abs(b[fin]))))


def jsonable(x, depth=0):
    if depth > 6:
        return str(x)
    if isinstance(x, (str, int, bool)) or x is None:
        return x
    if isinstance(x, float):
        return x if math.isfinite(x) else str(x)
    if isinstance(x, np.generic):
        return jsonable(x.item(), depth + 1)
    if isinstance(x, np.ndarray):
        return {"array": jsonable(x.tolist(), depth + 1)} if x.size <= 24 else {"array_shape": list(x.shape)}
    if isinstance(x, dict):
        return {str(k): jsonable(v, depth + 1) for k, v in x.items()}
    if isinstance(x, (list, tuple, set, frozenset)):
        return [jsonable(v, depth + 1) for v in x]
    return str(x)


class RtcResult:
    """Accumulates what a bounded driver actually did."""

    def __init__(self, prop_id, driver):
        self.prop_id = prop_id
        self.driver = driver
        self.evaluations = 0  # contract evaluations (post-condition actually evaluated)
        self.declined = 0  # real function raised / returned lazy: allowed by the property, counted
        self._distinct = set()
        self.samples = []
        self.failures = []  # dicts: contract, case, detail, tags, replay_src
        self.contracts = Counter()  # evaluations per contract name
        self.bounds = {}  # stated bounds of the enumeration
        self.exhaustive = False
        self.notes = []
        self.t0 = time.time()

    def evaluated(self, contract, case_key, nontrivial=True, sample=None):
        self.evaluations += 1
        self.contracts[contract] += 1
        if nontrivial:
            h = hashlib.sha1(repr(case_key).encode()).hexdigest()[:16]
            self._distinct.add(h)
        if sample is not None and len(self.samples) < 8:
            self.samples.append(jsonable(sample))

    def fail(self, contract, case, detail, replay_src="", tags=()):
        self.failures.append(
            dict(contract=contract, case=jsonable(case), detail=str(detail)[:2000], tags=list(tags), replay_src=replay_src)
        )

    @property
    def distinct_nontrivial(self):
        return len(self._distinct)

    def merge(self, other):
        self.evaluations += other.evaluations
        self.declined += other.declined
        self._distinct |= other._distinct
        for s in other.samples:
            if len(self.samples) < 8:
                self.samples.append(s)
        self.failures += other.failures
        self.contracts.update(other.contracts)
        self.notes += other.notes
        for k, v in other.bounds.items():
            self.bounds.setdefault(k, v)
        return self

    def to_json(self):
        return dict(
            driver=self.driver,
            evaluations=self.evaluations,
            declined=self.declined,
            distinct_nontrivial=self.distinct_nontrivial,
            contracts=dict(self.contracts),
            bounds=jsonable(self.bounds),
            exhaustive_within_bounds=self.exhaustive,
            samples=self.samples,
            failures=len(self.failures),
            notes=self.notes,
            wall_s=round(time.time() - self.t0, 2),
        )


# ---- frame contract of C20, usable by every driver ---------------------------------------------


def array_digest(a):
    a = np.asarray(a)
    return hashlib.sha256(np.ascontiguousarray(a).tobytes() + str((a.shape, a.dtype)).encode()).hexdigest()


def funsor_digest(f):
    """(inputs, output, data digests) of a funsor, recursively over its AST values."""
    seen = {}

    def go(x):
        import funsor

        if isinstance(x, funsor.terms.Funsor):
            if id(x) in seen:
                return seen[id(x)]
            seen[id(x)] = ("cycle",)
            r = (type(x).__name__, tuple((k, str(v)) for k, v in x.inputs.items()), str(x.output), tuple(go(v) for v in x._ast_values))
            seen[id(x)] = r
            return r
        if isinstance(x, np.ndarray):
            return ("nd", array_digest(x))
        if isinstance(x, (tuple, list)):
            return tuple(go(v) for v in x)
        if isinstance(x, (dict,)):
            return tuple((str(k), go(v)) for k, v in x.items())
        if isinstance(x, frozenset):
            return tuple(sorted(str(go(v)) for v in x))
        return repr(x) if isinstance(x, (int, float, str, bool, type(None))) else type(x).__name__ + ":" + str(x)

    return hashlib.sha256(repr(go(f)).encode()).hexdigest()


class FrameGuard:
    """Snapshot objects before a program, verify after: the run-time frame contract
    'modifies nothing reachable from an argument'."""

    def __init__(self):
        self.items = []

    def hold(self, obj, label=""):
        import funsor

        d = funsor_digest(obj) if isinstance(obj, funsor.terms.Funsor) else array_digest(obj)
        self.items.append((obj, d, label))
        return obj

    def violated(self):
        import funsor

        bad = []
        for obj, d, label in self.items:
            d2 = funsor_digest(obj) if isinstance(obj, funsor.terms.Funsor) else array_digest(obj)
            if d2 != d:
                bad.append(label or type(obj).__name__)
        return bad
