"""Bounded run-time contract driver for C01-C06 (term language): see /verif/rtc/BRIEF.md.

    /verif/.venv/bin/python /verif/rtc/drv_terms.py C01 quick

Helper modules: terms_den (oracle ``den``), terms_gen (expression generator), terms_contracts (the
pre/postconditions on one case, also called by the replay scripts), terms_cases (C04/C05/C06a case
enumerations), terms_rules (C02 rule wrappers).
"""
import json
import multiprocessing as mp
import os
import sys
import time
from collections import Counter

HERE = os.path.dirname(os.path.abspath(__file__))
if HERE not in sys.path:
    sys.path.insert(0, HERE)

import numpy as np  # noqa: E402

from common import RtcResult  # noqa: E402

PROPERTIES = ["C01", "C02", "C03", "C04", "C05", "C06"]
DRIVER = "rtc/drv_terms.py"
MAX_FAIL_PER_SIGNATURE = 3

TIERS = {
    # caps[d-1]: max expressions kept per shape at level d; tries: child tuples tried per child-slot tuple
    "quick": dict(depth=2, caps=(40, 1), tries=(4000, 24), universes="quick", fills=("arange", "rand"), rich=False),
    "thorough": dict(depth=3, caps=(400, 3, 1), tries=(4000, 60, 10), universes="thorough",
                     fills=("arange", "rand"), rich=True),
}


def _expr_items(tier, seed, jobs):
    """the C01 expression set: list of (src, meta)"""
    import terms_gen as G

    cfg = TIERS[tier]
    universes = G.UNIVERSES_QUICK if cfg["universes"] == "quick" else G.UNIVERSES_THOROUGH
    args = [(u, cfg["depth"], cfg["caps"], seed, cfg["rich"], cfg["tries"]) for u in universes]
    with mp.get_context("fork").Pool(min(jobs, len(args))) as pool:
        results = pool.map(_gen_universe, args)
    items = []
    stats = []
    for u, (its, st) in zip(universes, results):
        items += its
        stats.append(dict(universe=u, **st))
    return items, stats


def _gen_universe(a):
    import terms_gen as G

    sizes, depth, caps, seed, rich, tries = a
    es, stats = G.generate(sizes, depth, caps, seed, rich, tries)
    items = []
    for e in es:
        meta = dict(
            tags=sorted(set(e.tags())),
            root=e.tag + (":" + str(e.op) if e.op is not None else ""),
            ref=e.ref if e.ref != e.src else None,
            core_ground=bool(e.core and e.ground),
            inputs=[(k, (d.size, tuple(d.shape))) for k, d in e.inputs.items()],
            out=(e.out.size, tuple(e.out.shape)),
            depth=e.depth,
            size=e.size(),
            universe=(sizes["i"], sizes["j"], sizes["k"]),
        )
        items.append((e.src, meta))
    stats["count"] = len(items)
    return items, stats


def _chunks(items, n):
    n = max(1, n)
    size = max(1, (len(items) + n - 1) // n)
    return [items[i:i + size] for i in range(0, len(items), size)]


def _absorb(res, out, kind, src, fill, seed, meta, fail_counter):
    import terms_contracts as TC

    for contract, key, nontrivial in out.evaluations:
        res.evaluated(contract, (contract, src, fill, key), nontrivial,
                      sample=dict(contract=contract, expr=src[:200], fill=fill) if len(res.samples) < 8 else None)
    res.declined += out.declined
    for n in out.notes:
        if len(res.notes) < 6:
            res.notes.append(n)
    for reason, n in out.skipped.items():
        res.skip_counter[reason] += n
    for contract, detail, xtags in out.violations:
        tags = list(meta.get("tags", ())) + [t for t in xtags if t not in meta.get("tags", ())]
        if (contract, src) in fail_counter:  # same expression already failed this contract with the other fill
            fail_counter[(contract, src)] += 1
            continue
        fail_counter[(contract, src)] = 1
        import re

        sig = (contract, re.sub(r"[0-9.]+", "#", detail)[:60], tuple(t for t in tags if "-" in t))
        fail_counter[sig] += 1
        res.fail_total += 1
        if fail_counter[sig] <= MAX_FAIL_PER_SIGNATURE:
            res.fail(contract, dict(expr=src, fill=fill, seed=seed, universe=meta.get("universe")), detail,
                     TC.replay_script(kind, src, fill, seed, meta), tags)


def _new_result(prop):
    res = RtcResult(prop, DRIVER)
    res.skip_counter = Counter()
    res.fail_total = 0
    return res


def _merge(res, other):
    res.merge(other)
    res.skip_counter.update(other.skip_counter)
    res.fail_total += other.fail_total
    for k, v in getattr(other, "extra", {}).items():
        res.extra.setdefault(k, Counter()).update(v)
    return res


# ----------------------------------------------------------------------------------------------
# workers (one chunk of the expression set each)


def _work_exprs(a):
    prop, chunk, fills, seed, opts = a
    import terms_contracts as TC
    import terms_gen as G

    np.seterr(all="ignore")
    import warnings

    warnings.filterwarnings("ignore")
    res = _new_result(prop)
    res.extra = {}
    fail_counter = Counter()
    namespaces = {f: G.namespace(f, seed) for f in fills}
    for idx, (src, meta) in enumerate(chunk):
        for fill in fills:
            ns = namespaces[fill]
            case = TC.Case(ns, src, seed, meta.get("ref"))
            if prop == "C01":
                out = TC.check_c01(case, meta)
                _absorb(res, out, "C01", src, fill, seed, meta, fail_counter)
            if prop == "C06":
                out = TC.check_c06b(case, meta)
                _absorb(res, out, "C06b", src, fill, seed, meta, fail_counter)
            if prop == "C03":
                m = dict(meta)
                m["contexts"] = opts["contexts"]
                m["other_src"] = chunk[(idx + 1) % len(chunk)][0]
                out = TC.check_c03(case, m, opts["contexts"])
                _absorb(res, out, "C03", src, fill, seed, m, fail_counter)
    return res


def _run_pool(fn, tasks, jobs):
    if jobs <= 1 or len(tasks) <= 1:
        return [fn(t) for t in tasks]
    with mp.get_context("fork").Pool(jobs) as pool:
        return list(pool.imap_unordered(fn, tasks))


STRUCTURAL_TAGS = {"same-name-nested", "same-name-siblings", "free-var-named-like-binder", "self-substitution",
                   "extra-constructor"}


def _prune_failures(res):
    import re

    groups = {}
    for f in res.failures:
        sig = (f["contract"], re.sub(r"[0-9.]+", "#", f["detail"])[:40],
               tuple(sorted(t for t in f["tags"] if "-" in t and t not in STRUCTURAL_TAGS and not t.startswith("op"))))
        groups.setdefault(sig, []).append(f)
    kept = []
    for sig, fs in groups.items():
        fs.sort(key=lambda f: (len(str(f["case"])), str(f["case"]), f["detail"]))
        kept += fs[:MAX_FAIL_PER_SIGNATURE]
    kept.sort(key=lambda f: (f["contract"], len(str(f["case"])), str(f["case"]), f["detail"]))
    res.failures = kept
    return len(groups)


def _finish(res, t0):
    res.bounds["failure_signatures"] = _prune_failures(res)
    res.notes = list(dict.fromkeys(res.notes))
    res.bounds["skipped_cases_or_points"] = dict(res.skip_counter.most_common(12))
    res.bounds["failures_total_before_per_signature_cap"] = res.fail_total
    res.bounds["failures_kept_per_signature"] = MAX_FAIL_PER_SIGNATURE
    res.t0 = t0
    return res


def _run_expr_property(prop, tier, seed, jobs, opts=None):
    t0 = time.time()
    opts = dict(opts or {})
    cfg = TIERS[tier]
    items, stats = _expr_items(tier, seed, jobs)
    # deterministic interleaving so that chunks are balanced
    order = np.random.RandomState(seed).permutation(len(items))
    items = [items[i] for i in order]
    if opts.get("limit"):
        items = items[: opts["limit"]]
    tasks = [(prop, c, cfg["fills"], seed, opts) for c in _chunks(items, jobs * 4)]
    res = _new_result(prop)
    res.extra = {}
    for r in _run_pool(_work_exprs, tasks, jobs):
        _merge(res, r)
    res.bounds.update(
        names="i,j,k (+ fresh p,q,s,c,z,w; real x: Real, y: Reals[2])",
        universes=[s["universe"] for s in stats],
        depth=cfg["depth"],
        cap_per_shape_by_level=list(cfg["caps"]),
        child_tuples_tried_per_slot_tuple_by_level=list(cfg["tries"]),
        event_rank_max=2,
        fills=list(cfg["fills"]),
        expressions=len(items),
        generator_stats=stats,
        real_sample_points=3,
        nontrivial_rule="the input space of the expression has more than one point or the value has an event shape",
    )
    res.exhaustive = False
    res.notes.append(
        "level 1 is enumerated completely per shape up to the cap; deeper levels are sampled deterministically by seed"
    )
    return _finish(res, t0)


def _work_c06a(a):
    chunk, seed = a
    import warnings

    import terms_cases as TK

    warnings.filterwarnings("ignore")
    np.seterr(all="ignore")
    res = _new_result("C06")
    res.extra = {}
    fail_counter = Counter()
    for op_src, domains, finitary, tags in chunk:
        out = TK.check_c06a(op_src, domains, finitary, tags, seed)
        for contract, key, nontrivial in out.evaluations:
            res.evaluated(contract, (op_src, tuple(domains)), nontrivial,
                          sample=dict(contract=contract, op=op_src, domains=str(domains)) if len(res.samples) < 2 else None)
        res.declined += out.declined
        for reason, n in out.skipped.items():
            res.skip_counter[reason] += n
        for contract, detail, xtags in out.violations:
            sig = (contract, op_src.split("(")[0], xtags[-1], tuple(t for t in xtags if "-" in t))
            fail_counter[sig] += 1
            res.fail_total += 1
            if fail_counter[sig] <= MAX_FAIL_PER_SIGNATURE:
                res.fail(contract, dict(op=op_src, domains=[list(d) for d in domains]), detail,
                         TK.replay_c06a(op_src, domains, finitary, tags, seed), [str(t) for t in xtags])
    return res


def _run_c06a(res, tier, seed, jobs):
    import terms_cases as TK

    cases = list(TK.c06a_cases(tier))
    order = np.random.RandomState(seed).permutation(len(cases))
    cases = [cases[i] for i in order]
    tasks = [(c, seed) for c in _chunks(cases, jobs * 2)]
    for r in _run_pool(_work_c06a, tasks, jobs):
        _merge(res, r)
    quick = tier == "quick"
    res.bounds["find_domain_catalogue"] = dict(
        cases=len(cases), operand_rank_max=2 if quick else 3, operand_size_max=3 if quick else 4,
        bint_sizes=[1, 2, 3] if quick else [1, 2, 3, 4],
        families=["pointwise unary", "pointwise binary", "matmul", "reductions x axis x keepdims", "reshape",
                  "getitem(offset)", "getslice(index)", "stack(dim)", "cat(axis)", "einsum", "astype",
                  "transpose/diagonal/unsqueeze/flip"],
        values="all bounded-int value combinations (<= 2 int operands) + one seeded random fill",
    )


def _work_cases(a):
    """C04 / C05: chunk of case dicts"""
    prop, chunk, fills, seed, opts = a
    import warnings

    import terms_cases as TK
    import terms_gen as G

    warnings.filterwarnings("ignore")
    np.seterr(all="ignore")
    res = _new_result(prop)
    res.extra = {}
    fail_counter = Counter()
    namespaces = {f: G.namespace(f, seed) for f in fills}
    check = TK.check_c04 if prop == "C04" else TK.check_c05
    replay = TK.replay_c04 if prop == "C04" else TK.replay_c05
    import re

    for case in chunk:
        for fill in fills:
            out = check(namespaces[fill], case, seed)
            src = case["src"]
            for contract, key, nontrivial in out.evaluations:
                res.evaluated(contract, (contract, src, fill, key), nontrivial,
                              sample=dict(contract=contract, expr=src[:200], fill=fill) if len(res.samples) < 4 else None)
            res.declined += out.declined
            for reason, n in out.skipped.items():
                res.skip_counter[reason] += n
            for contract, detail, xtags in out.violations:
                if (contract, src) in fail_counter:
                    fail_counter[(contract, src)] += 1
                    continue
                fail_counter[(contract, src)] = 1
                tags = list(xtags)
                sig = (contract, re.sub(r"[0-9.]+", "#", detail)[:60], tuple(t for t in tags if "-" in t))
                fail_counter[sig] += 1
                res.fail_total += 1
                if fail_counter[sig] <= MAX_FAIL_PER_SIGNATURE:
                    res.fail(contract, dict(expr=src, fill=fill, seed=seed, universe=case.get("universe")), detail,
                             replay(case, fill, seed), tags)
    return res


def _run_case_property(prop, tier, seed, jobs, opts=None):
    import terms_cases as TK

    t0 = time.time()
    opts = dict(opts or {})
    cases = list(TK.c04_cases(tier, seed) if prop == "C04" else TK.c05_cases(tier, seed))
    order = np.random.RandomState(seed).permutation(len(cases))
    cases = [cases[i] for i in order]
    fills = ("arange", "rand") if prop == "C04" else ("arange",)
    if tier == "thorough":
        fills = ("arange", "rand")
    tasks = [(prop, c, fills, seed, opts) for c in _chunks(cases, jobs * 4)]
    res = _new_result(prop)
    res.extra = {}
    for r in _run_pool(_work_cases, tasks, jobs):
        _merge(res, r)
    res.bounds.update(cases=len(cases), fills=list(fills), real_sample_points=3)
    quick = tier == "quick"
    if prop == "C04":
        import terms_gen as G

        kinds = Counter(c["kind"] for c in cases)
        res.bounds.update(
            universes=G.UNIVERSES_QUICK if quick else G.UNIVERSES_THOROUGH,
            functions=["Tensor2", "Tensor3", "TensorEvent", "TensorInt", "Binary(lazy)", "Unary(lazy)", "Reduce",
                       "ReduceLazy", "Stack", "StackLazy", "Cat", "CatNew", "CatLazy", "Slice", "SliceStrided", "Lambda",
                       "LambdaLazy", "Contraction"],
            value_kinds=["number", "index tensor with 0/1/2 inputs (fresh, colliding with another input, with the key)",
                         "variable (fresh, other input, itself; swaps and diagonals through pairs)",
                         "Slice (fresh, onto the key, onto another input)", "integer / real expression (fresh, mentioning keys)"],
            keys_max=3, single_and_pair_maps="exhaustive", triple_maps_cap_per_function=150 if quick else 1500,
            chained_cap_per_function=150 if quick else 1200, map_cases=kinds["map"], chain_cases=kinds["chain"],
            interpretations=["eager", "lazy", "reflect (exact-inputs clause)"],
            nontrivial_rule="the substituted funsor's remaining input space has more than one point",
        )
    else:
        res.bounds.update(
            names=["i", "j"] if quick else ["i", "j", "k"], name_size=2, binder_depth_max=3 if quick else 4,
            level1="exhaustive", deeper_levels_sampled=dict({2: 1500, 3: 1500} if quick else {2: 5000, 3: 6000, 4: 6000}),
            binders=["Reduce", "Lambda(.sum / [var])", "Subs (incl. a term substituted into itself)", "Cat part_name",
                     "Contraction", "Independent"],
            interpretations=["eager", "lazy", "reflect", "normalize"],
            depth_histogram=dict(Counter(c["depth"] for c in cases)),
            nontrivial_rule="every case (each has at least one binder)",
        )
    res.exhaustive = False
    return _finish(res, t0)


def _work_c02(a):
    chunk, seed = a
    import warnings

    import terms_gen as G
    import terms_rules as R

    warnings.filterwarnings("ignore")
    np.seterr(all="ignore")
    namespaces = {}
    col = R.install(seed)
    try:
        for ctx in chunk:
            fill = ctx.get("fill", "arange")
            if fill not in namespaces:
                namespaces[fill] = G.namespace(fill, seed)
            R.set_context(ctx)
            try:
                R.run_workload(namespaces[fill], ctx)
            except Exception as exc:  # a workload bug must not lose the collected firings
                col.skipped["workload_exception:" + type(exc).__name__] += 1
    finally:
        R.uninstall()
    return R.harvest(col, _new_result)


def _run_c02(tier, seed, jobs):
    import terms_cases as TK
    import terms_rules as R

    t0 = time.time()
    quick = tier == "quick"
    items, stats = _expr_items(tier, seed, jobs)
    order = np.random.RandomState(seed).permutation(len(items))
    items = [items[i] for i in order]
    expr_limit = 6000 if quick else 30000
    contexts = []
    c03_contexts = ["lazy", "normalize", "memoize"]
    for src, meta in items[:expr_limit]:
        contexts.append(dict(kind="expr", src=src, ref=meta.get("ref"), tags=[t for t in meta["tags"] if "-" in t],
                             fill="arange", seed=seed, contexts=c03_contexts))
    for src in R.EXTRA_SOURCES:
        contexts.append(dict(kind="expr", src=src, ref=None, tags=["extra-constructor"], fill="arange", seed=seed,
                             contexts=c03_contexts))
    c04 = list(TK.c04_cases(tier, seed))
    c05 = list(TK.c05_cases(tier, seed))
    rng = np.random.RandomState(seed + 1)
    c04_limit = 3000 if quick else 20000
    if len(c04) > c04_limit:
        c04 = [c04[i] for i in sorted(rng.choice(len(c04), c04_limit, replace=False))]
    for c in c04:
        contexts.append(dict(kind="c04", case=c, tags=[t for t in c["tags"] if "-" in t], fill="arange", seed=seed))
    for c in c05:
        contexts.append(dict(kind="c05", case=c, tags=[t for t in c["tags"] if "-" in t], fill="arange", seed=seed))
    order = np.random.RandomState(seed + 2).permutation(len(contexts))
    contexts = [contexts[i] for i in order]
    tasks = [(c, seed) for c in _chunks(contexts, jobs * 4)]
    res = _new_result("C02")
    res.extra = {}
    for r in _run_pool(_work_c02, tasks, jobs):
        _merge(res, r)
    registered = R.registered_rules()
    fired = {k for k, v in res.extra.get("fired", {}).items() if v}
    evaluated = {k for k, v in res.extra.get("evaluated", {}).items() if v}
    never = sorted(set(registered) - fired)
    res.bounds.update(
        workloads=dict(expressions=min(len(items), expr_limit), c04_cases=len(c04), c05_cases=len(c05),
                       per_expression=["C01 eager build", "C03 lazy/normalize/memoize + both reinterpreters + sequential",
                                       "optimizer.unfold, optimizer.apply_optimizer on the reflect-, lazy- and normalize-built term"]),
        expression_set=dict(depth=TIERS[tier]["depth"], caps=list(TIERS[tier]["caps"]), universes=[s["universe"] for s in stats]),
        interpretations_wrapped=[n for n, _ in R.INTERPS],
        points_per_firing_max=R.MAX_POINTS, real_sample_points=3,
        rules_registered=len(registered), rules_fired_nonidentity=len(fired), rules_with_postcondition_evaluated=len(evaluated),
        coverage="%d/%d" % (len(fired), len(registered)),
        firings_nonidentity=int(sum(res.extra.get("fired", {}).values())),
        firings_identity=int(sum(res.extra.get("identity", {}).values())),
        points_compared=int(res.extra.get("points", {}).get("points", 0)),
        fired=dict(sorted((k, int(v)) for k, v in res.extra.get("fired", {}).items() if v)),
        never_fired=never,
        rule_failures=dict(res.extra.get("rule_failures", {})),
        nontrivial_rule="every evaluated firing is a non-identity rewrite (result is not the reflected term)",
    )
    res.notes.append("rules never fired with a non-identity rewrite: " + ", ".join(never))
    res.exhaustive = False
    return _finish(res, t0)


def _typecheck_start(prop, tier, seed, limit, jobs):
    """the same workload on a subset, in a separate interpreter started with FUNSOR_TYPECHECK=1
    (the switch is read when funsor.interpreter is imported)"""
    import subprocess
    import tempfile

    fd, path = tempfile.mkstemp(prefix="rtc_terms_", suffix=".pkl")
    os.close(fd)
    env = dict(os.environ, FUNSOR_TYPECHECK="1")
    cmd = [sys.executable, os.path.abspath(__file__), "--sub", prop, tier, str(seed), str(limit), str(jobs), path]
    return subprocess.Popen(cmd, env=env, stdout=subprocess.DEVNULL, stderr=subprocess.DEVNULL), path


def _typecheck_join(res, handle, label):
    import pickle

    proc, path = handle
    try:
        proc.wait(timeout=1500)
        with open(path, "rb") as f:
            sub = pickle.load(f)
        for f_ in sub.failures:
            f_["tags"] = list(f_["tags"]) + ["FUNSOR_TYPECHECK=1"]
            f_["replay_src"] = "import os, sys\nif os.environ.get('FUNSOR_TYPECHECK') != '1':\n    os.environ['FUNSOR_TYPECHECK'] = '1'\n    os.execv(sys.executable, [sys.executable] + sys.argv)\n" + f_["replay_src"]
        sub.contracts = Counter({k + "[FUNSOR_TYPECHECK=1]": v for k, v in sub.contracts.items()})
        n = sub.evaluations
        _merge(res, sub)
        res.bounds["FUNSOR_TYPECHECK_1_configuration"] = dict(expressions=sub.bounds.get("expressions"), evaluations=n)
    except Exception as exc:
        res.notes.append("FUNSOR_TYPECHECK=1 sub-run failed: %r" % (exc,))
    finally:
        try:
            os.remove(path)
        except OSError:
            pass


def _sub_main(argv):
    import pickle

    prop, tier, seed, limit, jobs, path = argv[0], argv[1], int(argv[2]), int(argv[3]), int(argv[4]), argv[5]
    import funsor.interpreter

    assert funsor.interpreter._TYPECHECK == 1
    import terms_contracts as TC

    opts = dict(limit=limit)
    if prop == "C03":
        opts["contexts"] = list(TC.CONTEXTS)
    res = _run_expr_property(prop, tier, seed, jobs, opts)
    with open(path, "wb") as f:
        pickle.dump(res, f)


def run(prop_id, tier="quick", seed=0, jobs=16):
    assert prop_id in PROPERTIES and tier in TIERS
    if prop_id == "C01":
        return _run_expr_property("C01", tier, seed, jobs)
    if prop_id == "C03":
        import terms_contracts as TC

        contexts = list(TC.CONTEXTS)
        sub = _typecheck_start("C03", tier, seed, 1500 if tier == "quick" else 12000, max(2, jobs // 4))
        res = _run_expr_property("C03", tier, seed, jobs, dict(contexts=contexts, limit=10000 if tier == "quick" else 60000))
        _typecheck_join(res, sub, "C03")
        res.bounds["contexts"] = contexts
        res.bounds["reinterpreters"] = ["recursion_reinterpret", "stack_reinterpret"]
        res.bounds["nontrivial_rule"] = "the input space of the expression has more than one point"
        return res
    if prop_id == "C02":
        return _run_c02(tier, seed, jobs)
    if prop_id in ("C04", "C05"):
        return _run_case_property(prop_id, tier, seed, jobs)
    if prop_id == "C06":
        sub = _typecheck_start("C06", tier, seed, 3000 if tier == "quick" else 30000, max(2, jobs // 4))
        res = _run_expr_property("C06", tier, seed, jobs)
        t0 = res.t0
        _run_c06a(res, tier, seed, jobs)
        _typecheck_join(res, sub, "C06")
        res.bounds["nontrivial_rule"] = "every (op, domains) pair / every expression counts (the type is the subject)"
        return _finish(res, t0)
    raise NotImplementedError(prop_id)


def _summarise(res, limit=60):
    import re

    groups = {}
    for f in res.failures:
        key = (f["contract"], re.sub(r"[0-9.]+", "#", f["detail"])[:70], tuple(t for t in f["tags"] if "-" in t))
        groups.setdefault(key, []).append(f)
    for key, fs in sorted(groups.items(), key=lambda kv: -len(kv[1]))[:limit]:
        f = min(fs, key=lambda f: len(str(f["case"])))
        case = f["case"].get("expr", f["case"]) if isinstance(f["case"], dict) else f["case"]
        print("FAILGROUP x%d %s %s\n    e.g. %s\n    %s" % (len(fs), key[0], list(key[2]), str(case)[:400], f["detail"][:300]))
    print("failures kept:", len(res.failures), "groups:", len(groups))


if __name__ == "__main__":
    if sys.argv[1] == "--sub":
        _sub_main(sys.argv[2:])
        sys.exit(0)
    prop = sys.argv[1]
    tier = sys.argv[2] if len(sys.argv) > 2 else "quick"
    res = run(prop, tier, 0)
    print(json.dumps(res.to_json()))
    for f in res.failures:
        case = f["case"]
        case = case.get("expr") or case.get("op") or case.get("rule") if isinstance(case, dict) else case
        print("FAIL %s | %s | %s | tags=%s" % (f["contract"], str(case)[:300], f["detail"][:240], [t for t in f["tags"] if "-" in t]))
    _summarise(res)
