"""Spec function ``den(term, env)`` of DESIGN.md Appendix C.

``den(t, env)`` is the textbook meaning of a funsor term at a point: ``env`` maps every free input of
``t`` to a concrete value of its domain (a Python ``int`` in ``[0, n)`` for ``Bint[n]``, a numpy array
of the declared shape otherwise).  It is defined by structural recursion over the term AS BUILT (the
public fields of the lazy AST are read, nothing is re-interpreted), and uses plain numpy element
arithmetic only: no funsor rewrite rule, no ``align_tensor``, no einsum helper, no funsor ``ops`` call.
Binders are handled by environment extension.

Partiality
----------
* ``Unsupported``     -- the term (or op) is outside den's fragment; callers skip the case and count it.
* ``UndefinedPoint``  -- the textbook value does not exist at this point (integer division by zero, an
                         index outside its range ...); callers skip the point and count it.
* float elements that are mathematically undefined (x/0, log of a negative, ...) are ``nan``; the
  comparison helper ``agree`` ignores elements at which the oracle is ``nan``.

Other drivers can extend the table with ``DEN_RULES[cls_name] = fn(term, env, den)``.
"""
import itertools
import math

import numpy as np

import funsor  # noqa: F401  (class identities only)
from funsor.cnf import Contraction
from funsor.tensor import Function, Tensor
from funsor.terms import (
    Align,
    Approximate,
    Binary,
    Cat,
    Finitary,
    Funsor,
    Independent,
    Lambda,
    Number,
    Reduce,
    Slice,
    Stack,
    Subs,
    Tuple,
    Unary,
    Variable,
)

try:  # Constant is optional (not needed by C01-C06)
    from funsor.constant import Constant
except Exception:  # pragma: no cover
    Constant = ()

try:
    from common import ATOL, RTOL  # the fixed tolerance of the contracts
except Exception:  # pragma: no cover  (stand-alone replay without common on the path)
    RTOL, ATOL = 1e-6, 1e-8


class Unsupported(Exception):
    pass


class UndefinedPoint(Exception):
    pass


DEN_RULES = {}  # class name -> fn(term, env, den); extension hook for other drivers

# ----------------------------------------------------------------------------------------------
# op meanings (plain numpy); keyed by op.name, parameters read from op.defaults


def _f(x):
    return np.asarray(x)


def _isint(x):
    return np.asarray(x).dtype.kind in "biu"


def _sigmoid(x):
    return 1.0 / (1.0 + np.exp(-np.asarray(x, dtype=float)))


def _reciprocal(x):
    x = np.asarray(x, dtype=float)
    return np.where(x == 0, np.nan, 1.0 / np.where(x == 0, 1.0, x))


def _log(x):
    x = np.asarray(x)
    if x.dtype == bool:
        x = x.astype(float)
    x = x.astype(float)
    out = np.full(x.shape, np.nan)
    out = np.where(x > 0, np.log(np.where(x > 0, x, 1.0)), out)
    out = np.where(x == 0, -np.inf, out)
    return out


def _sqrt(x):
    x = np.asarray(x, dtype=float)
    return np.where(x >= 0, np.sqrt(np.abs(x)), np.nan)


def _log1p(x):
    x = np.asarray(x, dtype=float)
    return np.where(x > -1, np.log1p(np.where(x > -1, x, 0.0)), np.where(x == -1, -np.inf, np.nan))


def _atanh(x):
    x = np.asarray(x, dtype=float)
    ok = np.abs(x) < 1
    r = np.where(ok, np.arctanh(np.where(ok, x, 0.0)), np.nan)
    r = np.where(x == 1, np.inf, r)
    r = np.where(x == -1, -np.inf, r)
    return r


def _neg(x):
    x = np.asarray(x)
    if x.dtype == bool:
        raise Unsupported("neg on bool")
    return -x


def _lgamma(x):
    return np.vectorize(math.lgamma, otypes=[float])(np.asarray(x, dtype=float))


UNARY = {
    "abs": lambda x: np.abs(_f(x)),
    "neg": _neg,
    "pos": lambda x: _f(x),
    "invert": lambda x: np.invert(_f(x)),
    "exp": lambda x: np.exp(np.asarray(x, dtype=float)),
    "log": _log,
    "log1p": _log1p,
    "sqrt": _sqrt,
    "tanh": lambda x: np.tanh(np.asarray(x, dtype=float)),
    "atanh": _atanh,
    "sigmoid": _sigmoid,
    "reciprocal": _reciprocal,
    "lgamma": _lgamma,
    "softplus": lambda x: np.log1p(np.exp(-np.abs(np.asarray(x, dtype=float)))) + np.maximum(np.asarray(x, dtype=float), 0),
    "isnan": lambda x: np.isnan(np.asarray(x, dtype=float)),
    "detach": lambda x: _f(x),
}


def _truediv(a, b):
    a = np.asarray(a, dtype=float)
    b = np.asarray(b, dtype=float)
    a, b = np.broadcast_arrays(a, b)
    return np.where(b == 0, np.nan, a / np.where(b == 0, 1.0, b))


def _floordiv(a, b):
    a, b = np.asarray(a), np.asarray(b)
    if np.any(b == 0):
        raise UndefinedPoint("floordiv by zero")
    return np.floor_divide(a, b)


def _mod(a, b):
    a, b = np.asarray(a), np.asarray(b)
    if np.any(b == 0):
        raise UndefinedPoint("mod by zero")
    return np.mod(a, b)


def _pow(a, b):
    a, b = np.asarray(a), np.asarray(b)
    if _isint(a) and _isint(b):
        a = a.astype(np.int64)
        b = b.astype(np.int64)
        if np.any(b < 0):
            raise UndefinedPoint("negative integer power")
        # exact integer power via python ints (no silent wrap-around)
        a, b = np.broadcast_arrays(a, b)
        out = np.empty(a.shape, dtype=object)
        for idx in np.ndindex(a.shape):
            out[idx] = int(a[idx]) ** int(b[idx])
        try:
            return out.astype(np.int64)
        except OverflowError:
            raise UndefinedPoint("integer power overflow")
    a = a.astype(float)
    b = b.astype(float)
    with np.errstate(all="ignore"):
        return np.power(a, b)


def _bitop(fn):
    def go(a, b):
        a, b = np.asarray(a), np.asarray(b)
        if not (_isint(a) and _isint(b)):
            raise Unsupported("bit op on non-integers")
        return fn(a, b)

    return go


def _logaddexp(a, b):
    a = np.asarray(a, dtype=float)
    b = np.asarray(b, dtype=float)
    a, b = np.broadcast_arrays(a, b)
    m = np.maximum(a, b)
    msafe = np.where(np.isfinite(m), m, 0.0)
    with np.errstate(all="ignore"):
        r = np.log(np.exp(a - msafe) + np.exp(b - msafe)) + msafe
    # +inf with anything is +inf; (-inf, -inf) is -inf
    r = np.where((a == np.inf) | (b == np.inf), np.inf, r)
    r = np.where((a == -np.inf) & (b == -np.inf), -np.inf, r)
    return r


def _arith(fn):
    def go(a, b):
        a, b = np.asarray(a), np.asarray(b)
        if a.dtype == bool and b.dtype == bool:
            a = a.astype(np.int64)
            b = b.astype(np.int64)
        return fn(a, b)

    return go


BINARY = {
    "add": _arith(np.add),
    "sub": _arith(np.subtract),
    "mul": _arith(np.multiply),
    "truediv": _truediv,
    "floordiv": _floordiv,
    "mod": _mod,
    "pow": _pow,
    "max": lambda a, b: np.maximum(_f(a), _f(b)),
    "min": lambda a, b: np.minimum(_f(a), _f(b)),
    "logaddexp": _logaddexp,
    "and_": _bitop(np.bitwise_and),
    "or_": _bitop(np.bitwise_or),
    "xor": _bitop(np.bitwise_xor),
    "lshift": _bitop(np.left_shift),
    "rshift": _bitop(np.right_shift),
    "eq": lambda a, b: np.equal(_f(a), _f(b)),
    "ne": lambda a, b: np.not_equal(_f(a), _f(b)),
    "lt": lambda a, b: np.less(_f(a), _f(b)),
    "le": lambda a, b: np.less_equal(_f(a), _f(b)),
    "gt": lambda a, b: np.greater(_f(a), _f(b)),
    "ge": lambda a, b: np.greater_equal(_f(a), _f(b)),
}


def _matmul(a, b):
    a, b = np.asarray(a), np.asarray(b)
    if a.ndim < 1 or b.ndim < 1:
        raise Unsupported("matmul of scalars")
    return np.matmul(a, b)


BINARY["matmul"] = _matmul


def _logsumexp(x, axis, keepdims):
    x = np.asarray(x, dtype=float)
    m = np.max(x, axis=axis, keepdims=True)
    msafe = np.where(np.isfinite(m), m, 0.0)
    with np.errstate(all="ignore"):
        r = np.log(np.sum(np.exp(x - msafe), axis=axis, keepdims=True)) + msafe
    r = np.where(m == np.inf, np.inf, r)
    if not keepdims:
        r = np.squeeze(r, axis=axis if axis is not None else None)
    return r


def _reduction(name, x, defaults):
    x = np.asarray(x)
    axis = defaults.get("axis", None)
    keepdims = defaults.get("keepdims", False)
    if isinstance(axis, list):
        axis = tuple(axis)
    if x.ndim == 0:
        # a scalar has a single element: every reduction is the reduction of that one element
        x1 = x.reshape(1)
        r = _reduction(name, x1, {k: v for k, v in defaults.items() if k not in ("axis", "keepdims")})
        return r
    if name == "sum":
        return np.sum(x, axis=axis, keepdims=keepdims)
    if name == "prod":
        return np.prod(x, axis=axis, keepdims=keepdims)
    if name == "amax":
        return np.max(x, axis=axis, keepdims=keepdims)
    if name == "amin":
        return np.min(x, axis=axis, keepdims=keepdims)
    if name == "all":
        return np.all(x, axis=axis, keepdims=keepdims)
    if name == "any":
        return np.any(x, axis=axis, keepdims=keepdims)
    if name == "mean":
        return np.mean(x, axis=axis, keepdims=keepdims)
    if name == "std":
        return np.std(x, axis=axis, ddof=defaults.get("ddof", 0), keepdims=keepdims)
    if name == "var":
        return np.var(x, axis=axis, ddof=defaults.get("ddof", 0), keepdims=keepdims)
    if name == "logsumexp":
        return _logsumexp(x, axis, keepdims)
    raise Unsupported("reduction " + name)


REDUCTIONS = {"sum", "prod", "amax", "amin", "all", "any", "mean", "std", "var", "logsumexp"}


def _argreduce(name, x, defaults):
    x = np.asarray(x)
    axis = defaults.get("axis", None)
    keepdims = defaults.get("keepdims", False)
    fn = np.argmax if name == "argmax" else np.argmin
    r = fn(x, axis=axis)
    if keepdims:
        if axis is None:
            r = np.reshape(r, (1,) * x.ndim)
        else:
            r = np.expand_dims(r, axis)
    return r


def apply_unary(op, x):
    name = getattr(op, "name", None)
    defaults = dict(getattr(op, "defaults", {}))
    if name in UNARY:
        with np.errstate(all="ignore"):
            return UNARY[name](x)
    if name in REDUCTIONS:
        with np.errstate(all="ignore"):
            return _reduction(name, x, defaults)
    if name in ("argmax", "argmin"):
        return _argreduce(name, x, defaults)
    if name == "reshape":
        return np.asarray(x).reshape(tuple(defaults["shape"]))
    if name == "getslice":
        index = defaults["index"]
        if isinstance(x, tuple):
            if isinstance(index, tuple) and len(index) == 1:
                index = index[0]
            return x[index]
        try:
            return np.asarray(x)[index]
        except IndexError:
            raise UndefinedPoint("getslice index out of range")
    if name == "astype":
        return np.asarray(x).astype(defaults["dtype"])
    if name == "transpose":
        return np.swapaxes(np.asarray(x), defaults["axis1"], defaults["axis2"])
    if name == "permute":
        return np.transpose(np.asarray(x), defaults["dims"])
    if name == "unsqueeze":
        return np.expand_dims(np.asarray(x), defaults["dim"])
    if name == "flip":
        return np.flip(np.asarray(x), defaults["axis"])
    if name == "expand":
        return np.broadcast_to(np.asarray(x), tuple(defaults["shape"]))
    if name == "diagonal":
        return np.diagonal(np.asarray(x), axis1=defaults["dim1"], axis2=defaults["dim2"])
    if name == "clamp":
        return np.clip(np.asarray(x), defaults.get("min"), defaults.get("max"))
    raise Unsupported("unary op %r" % (name,))


def as_index(v, size=None):
    """A den value used as an integer index."""
    a = np.asarray(v)
    if a.shape != ():
        raise Unsupported("non-scalar index value")
    if a.dtype.kind == "b":
        i = int(a)
    elif a.dtype.kind in "iu":
        i = int(a)
    elif a.dtype.kind == "f" and float(a) == int(a):
        i = int(a)
    else:
        raise UndefinedPoint("non-integer index value %r" % (v,))
    if i < 0 or (size is not None and i >= size):
        raise UndefinedPoint("index %d outside [0,%s)" % (i, size))
    return i


def apply_binary(op, a, b):
    name = getattr(op, "name", None)
    defaults = dict(getattr(op, "defaults", {}))
    if name in BINARY:
        with np.errstate(all="ignore"):
            return BINARY[name](a, b)
    if name == "getitem":
        offset = defaults.get("offset", 0)
        if isinstance(a, tuple):
            return a[as_index(b, len(a))]
        a = np.asarray(a)
        if offset >= a.ndim:
            raise Unsupported("getitem offset beyond rank")
        i = as_index(b, a.shape[offset])
        return a[(slice(None),) * offset + (i,)]
    raise Unsupported("binary op %r" % (name,))


def naive_einsum(equation, operands):
    if "." in equation or "->" not in equation:
        raise Unsupported("einsum equation " + equation)
    ins, out = equation.split("->")
    ins = ins.split(",")
    if len(ins) != len(operands):
        raise Unsupported("einsum arity")
    operands = [np.asarray(x, dtype=float) for x in operands]
    sizes = {}
    for spec, x in zip(ins, operands):
        if len(spec) != x.ndim:
            raise Unsupported("einsum rank")
        for s, n in zip(spec, x.shape):
            if sizes.setdefault(s, n) != n:
                raise Unsupported("einsum size mismatch")
    symbols = list(sizes)
    result = np.zeros(tuple(sizes[s] for s in out))
    for assignment in itertools.product(*(range(sizes[s]) for s in symbols)):
        a = dict(zip(symbols, assignment))
        term = 1.0
        for spec, x in zip(ins, operands):
            term = term * x[tuple(a[s] for s in spec)]
        result[tuple(a[s] for s in out)] += term
    return result


def apply_finitary(op, args):
    name = getattr(op, "name", None)
    defaults = dict(getattr(op, "defaults", {}))
    args = [np.asarray(a) for a in args]
    if name == "stack":
        dim = defaults.get("dim", 0)
        try:
            args = np.broadcast_arrays(*args)
        except ValueError:
            raise Unsupported("stack of non-broadcastable parts")
        return np.stack(args, axis=dim)
    if name == "cat":
        axis = defaults.get("axis", 0)
        ranks = {a.ndim for a in args}
        if len(ranks) != 1 or 0 in ranks:
            raise Unsupported("cat of parts of different rank")
        try:
            return np.concatenate(args, axis=axis)
        except ValueError:
            raise Unsupported("cat of parts with different trailing shapes")
    if name == "einsum":
        return naive_einsum(defaults["equation"], args)
    raise Unsupported("finitary op %r" % (name,))


def fold(op, values):
    """Left fold of a binary (associative) op over a non-empty list of values."""
    if getattr(op, "name", None) not in ("add", "mul", "max", "min", "logaddexp", "and_", "or_", "xor"):
        raise Unsupported("fold with op %r" % (getattr(op, "name", None),))
    it = iter(values)
    try:
        acc = next(it)
    except StopIteration:
        raise Unsupported("empty fold")
    for v in it:
        acc = apply_binary(op, acc, v)
    return acc


# ----------------------------------------------------------------------------------------------
# domains


def domain_points(domain, limit=4096):
    """All values of a bounded-integer domain (ints for scalars, int arrays otherwise)."""
    dtype = domain.dtype
    if not isinstance(dtype, int):
        raise Unsupported("enumeration of a real domain")
    shape = tuple(domain.shape)
    if not shape:
        return list(range(dtype))
    n = int(np.prod(shape))
    if dtype**n > limit:
        raise Unsupported("domain too large to enumerate")
    return [np.array(v, dtype=np.int64).reshape(shape) for v in itertools.product(range(dtype), repeat=n)]


def assignments(variables):
    """All assignments of a collection of (name, domain) pairs."""
    variables = sorted(variables, key=lambda kv: kv[0])
    names = [k for k, _ in variables]
    spaces = [domain_points(d) for _, d in variables]
    for values in itertools.product(*spaces):
        yield dict(zip(names, values))


def _lookup(env, name):
    try:
        return env[name]
    except KeyError:
        raise KeyError("free variable %r of the term is not bound by the environment (undeclared input)" % (name,))


# ----------------------------------------------------------------------------------------------
# den


def den(t, env):
    """Textbook value of term ``t`` at the point ``env`` (numpy array of the output shape)."""
    cls = type(t)
    rule = DEN_RULES.get(getattr(cls, "__origin__", cls).__name__) if DEN_RULES else None
    if rule is not None:
        return rule(t, env, den)

    if isinstance(t, Variable):
        return _lookup(env, t.name)

    if isinstance(t, Number):
        return np.asarray(t.data)

    if isinstance(t, Tensor):
        data = np.asarray(t.data)
        idx = []
        for k, d in t.inputs.items():
            idx.append(as_index(_lookup(env, k), d.size))
        return data[tuple(idx)]

    if isinstance(t, Unary):
        return apply_unary(t.op, den(t.arg, env))

    if isinstance(t, Binary):
        return apply_binary(t.op, den(t.lhs, env), den(t.rhs, env))

    if isinstance(t, Reduce):
        variables = [(v.name, v.output) for v in t.reduced_vars]
        values = []
        for sigma in assignments(variables):
            env2 = dict(env)
            env2.update(sigma)
            values.append(den(t.arg, env2))
        return fold(t.op, values)

    if isinstance(t, Subs):
        values = {}
        for k, v in t.subs.items():
            val = den(v, env)
            dom = t.arg.inputs[k]
            if isinstance(dom.dtype, int) and not dom.shape:
                val = as_index(val, dom.size)
            values[k] = val
        env2 = dict(env)
        env2.update(values)
        return den(t.arg, env2)

    if isinstance(t, Slice):
        i = as_index(_lookup(env, t.name), t.inputs[t.name].size)
        return np.asarray(t.slice.start + t.slice.step * i)

    if isinstance(t, Stack):
        i = as_index(_lookup(env, t.name), len(t.parts))
        return den(t.parts[i], env)

    if isinstance(t, Cat):
        n = as_index(_lookup(env, t.name), t.inputs[t.name].size)
        off = 0
        for part in t.parts:
            size = part.inputs[t.part_name].size
            if off <= n < off + size:
                env2 = dict(env)
                if t.part_name != t.name:
                    env2.pop(t.name, None)
                env2[t.part_name] = n - off
                return den(part, env2)
            off += size
        raise UndefinedPoint("Cat position outside all parts")

    if isinstance(t, Lambda):
        size = t.var.output.size
        rows = []
        for i in range(size):
            env2 = dict(env)
            env2[t.var.name] = i
            rows.append(np.asarray(den(t.expr, env2)))
        if not rows:
            raise Unsupported("Lambda over an empty domain")
        return np.stack(rows, axis=0)

    if isinstance(t, Independent):
        x = np.asarray(_lookup(env, t.reals_var))
        size = t.fn.inputs[t.bint_var].size
        total = None
        for j in range(size):
            env2 = dict(env)
            env2.pop(t.reals_var, None)
            env2[t.bint_var] = j
            env2[t.diag_var] = x[j]
            v = den(t.fn, env2)
            total = v if total is None else apply_binary(_ADD, total, v)
        if total is None:
            raise Unsupported("Independent over an empty domain")
        return total

    if isinstance(t, Align):
        return den(t.arg, env)

    if isinstance(t, Approximate):
        return den(t.model, env)

    if Constant and isinstance(t, Constant):
        return den(t.arg, env)

    if isinstance(t, Contraction):
        red_name = getattr(t.red_op, "name", None)
        bin_name = getattr(t.bin_op, "name", None)
        variables = [(v.name, v.output) for v in t.reduced_vars]

        def product(env2):
            vals = [den(term, env2) for term in t.terms]
            if bin_name == "null":
                if len(vals) != 1:
                    raise Unsupported("null bin_op with several terms")
                return vals[0]
            return fold(t.bin_op, vals)

        if red_name == "null" or not variables:
            if variables:
                raise Unsupported("null red_op with reduced vars")
            return product(env)
        values = []
        for sigma in assignments(variables):
            env2 = dict(env)
            env2.update(sigma)
            values.append(product(env2))
        return fold(t.red_op, values)

    if isinstance(t, Finitary):
        return apply_finitary(t.op, [den(a, env) for a in t.args])

    if isinstance(t, Tuple):
        return tuple(den(a, env) for a in t.args)

    if isinstance(t, Function):
        return np.asarray(t.fn(*[np.asarray(den(a, env)) for a in t.args]))

    if isinstance(t, Funsor):
        raise Unsupported("term class " + getattr(cls, "__origin__", cls).__name__)
    raise Unsupported("not a funsor: %r" % (type(t),))


class _Named:
    def __init__(self, name):
        self.name = name
        self.defaults = {}


_ADD = _Named("add")


def supported(t):
    """Cheap syntactic check that a term lies in den's fragment (ops are checked when evaluated)."""
    seen = set()

    def go(x):
        if isinstance(x, Funsor):
            if id(x) in seen:
                return True
            seen.add(id(x))
            name = getattr(type(x), "__origin__", type(x)).__name__
            if name not in _SUPPORTED and name not in DEN_RULES:
                return False
            return all(go(v) for v in x._ast_values)
        if isinstance(x, (tuple, frozenset)):
            return all(go(v) for v in x)
        return True

    return go(t)


_SUPPORTED = {
    "Variable",
    "Number",
    "Tensor",
    "Unary",
    "Binary",
    "Reduce",
    "Subs",
    "Slice",
    "Stack",
    "Cat",
    "Lambda",
    "Independent",
    "Align",
    "Approximate",
    "Constant",
    "Contraction",
    "Finitary",
    "Tuple",
    "Function",
}


# ----------------------------------------------------------------------------------------------
# observation of evaluated results through the public API, environments, comparison


def value(t, env):
    """Value of an EVALUATED funsor (Tensor / Number) at a point, through .data/.inputs only."""
    if isinstance(t, Number):
        return np.asarray(t.data)
    if isinstance(t, Tensor):
        return np.asarray(t.data)[tuple(int(env[k]) for k in t.inputs)]
    raise Unsupported("value() of a lazy term")


def is_evaluated(t):
    return isinstance(t, (Number, Tensor))


def sample_value(domain, rng):
    shape = tuple(domain.shape)
    if isinstance(domain.dtype, int):
        if not shape:
            return int(rng.randint(0, domain.dtype))
        return rng.randint(0, domain.dtype, size=shape).astype(np.int64)
    return rng.uniform(0.3, 1.7, size=shape)


def env_space(inputs, seed=0, n_real=3, limit=4096):
    """Every assignment of the scalar bounded-int inputs x ``n_real`` sample points of the other inputs.

    Returns (list of envs, exhaustive flag for the integer part).
    """
    int_names = [k for k, d in inputs.items() if isinstance(d.dtype, int) and not d.shape]
    other = [(k, d) for k, d in inputs.items() if k not in int_names]
    spaces = [range(inputs[k].size) for k in int_names]
    total = 1
    for s in spaces:
        total *= len(s)
    exhaustive = True
    points = itertools.product(*spaces)
    if total > limit:
        rng = np.random.RandomState(seed + 17)
        points = [tuple(int(rng.randint(0, len(s))) for s in spaces) for _ in range(limit)]
        exhaustive = False
    envs = []
    rng = np.random.RandomState(seed + 101)
    samples = []
    for r in range(n_real if other else 1):
        samples.append({k: sample_value(d, rng) for k, d in other})
    for p in points:
        for s in samples:
            env = dict(zip(int_names, p))
            env.update(s)
            envs.append(env)
    return envs, exhaustive


def agree(actual, expected, rtol=RTOL, atol=ATOL):
    """``actual`` (code under test) equals ``expected`` (oracle) within the fixed tolerance.

    Shapes must match exactly; elements at which the oracle is undefined (nan) are not compared.
    Returns (ok, reason).
    """
    if isinstance(expected, tuple):
        if not isinstance(actual, tuple) or len(actual) != len(expected):
            return False, "tuple structure differs"
        for a, e in zip(actual, expected):
            ok, why = agree(a, e, rtol, atol)
            if not ok:
                return ok, why
        return True, ""
    a = np.asarray(actual)
    e = np.asarray(expected)
    if a.shape != e.shape:
        return False, "shape %s != oracle shape %s" % (a.shape, e.shape)
    if a.dtype == object or e.dtype == object:
        return bool(np.all(a == e)), "object mismatch"
    if a.dtype.kind in "biu" and e.dtype.kind in "biu":
        ok = bool(np.array_equal(a.astype(np.int64), e.astype(np.int64)))
        return ok, "" if ok else "integer values differ: %s vs oracle %s" % (a.tolist(), e.tolist())
    a = a.astype(float)
    e = e.astype(float)
    # not compared: points where the oracle is undefined (nan), and points where the exact value is infinite and funsor
    # produced nan (float overflow followed by inf - inf inside logaddexp and friends: arithmetic on infinities is C15's
    # topic, the inputs here are finite)
    defined = ~np.isnan(e) & ~(np.isinf(e) & np.isnan(a))
    a = a[defined]
    e = e[defined]
    if np.any(np.isnan(a)):
        return False, "nan where oracle is defined"
    fin = np.isfinite(a) & np.isfinite(e)
    if not np.array_equal(a[~fin], e[~fin]):
        return False, "non-finite values differ: %s vs oracle %s" % (a[~fin].tolist(), e[~fin].tolist())
    err = np.abs(a[fin] - e[fin])
    tol = atol + rtol * np.maximum(np.abs(a[fin]), np.abs(e[fin]))
    if np.all(err <= tol):
        return True, ""
    i = int(np.argmax(err - tol))
    return False, "value %r vs oracle %r (|diff| %.3g)" % (float(a[fin][i]), float(e[fin][i]), float(err[i]))
