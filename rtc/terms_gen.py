"""Exhaustive small-scope generator of well-typed funsor expressions (bounded tier, C01-C06).

An expression is a *recipe* ``E``: a python source string (``src``) that builds the expression through
funsor's public constructors under whatever interpretation is active, together with the type the
TEXTBOOK typing rule predicts for it (``inputs``: name -> Dom in first-occurrence order, ``out``: Dom).
The prediction is computed here, independently of funsor (numpy is used for shape arithmetic only);
it is what contract C06(b) compares the lazily built term's declared type with, and what filters
ill-typed candidates.

Scope: names i,j,k (+ fresh p,q,s,c,z; real x,y) with sizes given by a *universe* (si,sj,sk);
event rank <= 2; leaves = Tensor (real / bounded int), Number, Variable, Slice; depth by level.
Per level and per *shape* (constructor family, op / parameter class, constructor tags of the children)
the candidates are enumerated completely when the candidate space is small (<= ENUM_MAX) and sampled
deterministically by seed otherwise; at most ``cap`` well-typed expressions are kept per shape.
"""
import itertools
import zlib
from collections import OrderedDict, namedtuple

import numpy as np

Dom = namedtuple("Dom", "size shape")  # size: "real" | int | None (bounded int of unpredicted size)

ENUM_MAX = 4000


def real(*shape):
    return Dom("real", tuple(shape))


def bint(n, *shape):
    return Dom(n, tuple(shape))


def is_real(d):
    return d.size == "real"


def dom_src(d):
    if d.size == "real":
        return "Reals[%s]" % ", ".join(map(str, d.shape)) if d.shape else "Real"
    assert d.size is not None
    return "Bint[%s]" % ", ".join(map(str, (d.size,) + tuple(d.shape)))


def dom_of_funsor_domain(d):
    """funsor Domain -> Dom (for comparing a declared type with a predicted one)."""
    return Dom(d.dtype if d.dtype == "real" else int(d.dtype), tuple(int(s) for s in d.shape))


PREAMBLE = '''\
import sys
sys.path.insert(0, __import__("os").environ.get("VERIF_REPO", "/repo"))
import numpy as np
from collections import OrderedDict
import funsor
from funsor import ops
from funsor.domains import Bint, Real, Reals
from funsor.tensor import Tensor, Einsum
from funsor.terms import (Number, Variable, Unary, Binary, Reduce, Subs, Stack, Cat, Slice, Lambda,
                          Independent, Finitary)
from funsor.cnf import Contraction
from funsor.interpretations import eager, lazy, reflect, normalize, sequential, memoize
from funsor.interpreter import recursion_reinterpret, stack_reinterpret, reinterpret
funsor.set_backend("numpy")
FILL = "arange"   # or "rand"
SEED = 0
_LEAVES = {}
def fill(shape, k):
    """real leaf data: injective arange-like (a moved element is visible) or seeded random, all > 0"""
    key = ("r", tuple(shape), k, FILL, SEED)
    if key not in _LEAVES:
        n = int(np.prod(shape)) if shape else 1
        if FILL == "arange":
            a = 0.5 + 0.25 * np.arange(n) + 0.0713 * k
        else:
            a = np.random.RandomState(1000 * SEED + k).uniform(0.4, 2.4, n)
        _LEAVES[key] = a.reshape(tuple(shape))
    return _LEAVES[key]
def ifill(shape, size, k):
    """bounded-int leaf data in [0, size)"""
    key = ("b", tuple(shape), size, k, FILL, SEED)
    if key not in _LEAVES:
        n = int(np.prod(shape)) if shape else 1
        if FILL == "arange":
            a = (np.arange(n) + k) % size
        else:
            a = np.random.RandomState(1000 * SEED + k).randint(0, size, n)
        _LEAVES[key] = a.reshape(tuple(shape))
    return _LEAVES[key]
'''


def namespace(fill="arange", seed=0):
    ns = {}
    exec(PREAMBLE, ns)
    ns["FILL"] = fill
    ns["SEED"] = seed
    return ns


class E:
    __slots__ = ("tag", "op", "kids", "src", "ref", "inputs", "out", "depth", "core", "ground", "nbind", "xtags")

    def __init__(self, tag, op, kids, src, inputs, out, core=True, ground=True, nbind=0, ref=None, value_kids=(),
                 xtags=()):
        """``src`` / ``ref`` are format strings over the children's src / ref ({0}, {1}, ...).
        ``ref`` builds the REFERENCE term (same textbook meaning; differs from ``src`` only where the
        expression under test cannot be constructed under ``reflect``).
        ``value_kids``: indices of children used as substitution values / indices; a bare Variable or Slice
        there does not make the expression non-ground."""
        self.tag = tag
        self.op = op
        self.kids = tuple(kids)
        self.ref = (ref or src).format(*[k.ref for k in kids])
        src = src.format(*[k.src for k in kids])
        self.src = src
        self.xtags = tuple(xtags)
        self.inputs = inputs  # OrderedDict name -> Dom
        self.out = out
        self.depth = 1 + max([k.depth for k in kids], default=-1)
        # core: built only from the documented core constructors; ground: no free Variable leaf
        self.core = core and all(k.core for k in kids)
        self.ground = ground and all(
            k.ground or (i in value_kids and k.tag == "variable") for i, k in enumerate(kids)
        )
        self.nbind = nbind + sum(k.nbind for k in kids)

    def __repr__(self):
        return self.src

    def size(self):
        return 1 + sum(k.size() for k in self.kids)

    def tags(self):
        out = [self.tag + (":" + str(self.op) if self.op is not None else "")] + list(self.xtags)
        for k in self.kids:
            out += k.tags()
        return out


def merge(*ods):
    """union of inputs in first-occurrence order; None when a name has two different domains"""
    res = OrderedDict()
    for od in ods:
        for k, d in od.items():
            if res.setdefault(k, d) != d:
                return None
    return res


def bshape(*shapes):
    try:
        return tuple(np.broadcast_shapes(*shapes))
    except ValueError:
        return None


def inputs_src(inputs):
    return "OrderedDict([%s])" % ", ".join("(%r, %s)" % (k, dom_src(d)) for k, d in inputs.items())


# ----------------------------------------------------------------------------------------------
# leaves


def tensor(names, event, k, sizes, dtype="real"):
    inputs = OrderedDict((n, bint(sizes[n])) for n in names)
    shape = tuple(sizes[n] for n in names) + tuple(event)
    if dtype == "real":
        src = "Tensor(fill(%r, %d), %s)" % (shape, k, inputs_src(inputs))
        out = real(*event)
    else:
        src = "Tensor(ifill(%r, %d, %d), %s, %d)" % (shape, dtype, k, inputs_src(inputs), dtype)
        out = bint(dtype, *event)
    return E("tensor", "real" if dtype == "real" else "int", (), src, inputs, out)


def number(v, dtype="real"):
    if dtype == "real":
        return E("number", "real", (), "Number(%r)" % float(v), OrderedDict(), real())
    return E("number", "int", (), "Number(%d, %d)" % (v, dtype), OrderedDict(), bint(dtype))


def variable(name, dom):
    return E("variable", "real" if is_real(dom) else "int", (), "Variable(%r, %s)" % (name, dom_src(dom)),
             OrderedDict([(name, dom)]), dom, core=True, ground=False)


def slice_(name, start, stop, step, dtype):
    stop = min(dtype, max(start, stop))
    size = max(0, (stop + step - 1 - start) // step)
    if size <= 0:
        return None
    return E("slice", None, (), "Slice(%r, %d, %d, %d, %d)" % (name, start, stop, step, dtype),
             OrderedDict([(name, bint(size))]), bint(dtype), ground=False)


# ----------------------------------------------------------------------------------------------
# constructor families.  Each family: arity, params(kids) -> list, make(kids, param) -> E | None,
# pclass(param) -> hashable used in the shape key

UNARY_REAL = ["neg", "abs", "exp", "log", "sqrt", "sigmoid", "tanh", "log1p", "reciprocal"]
UNARY_INT = ["neg", "abs"]
BINARY_REAL = ["add", "sub", "mul", "truediv", "pow", "max", "min", "logaddexp", "lt", "eq", "ge"]
BINARY_INT = ["add", "mul", "sub", "max", "min", "floordiv", "mod", "and_", "or_", "xor", "eq", "lt"]
COMPARISONS = {"lt", "le", "eq", "ne", "gt", "ge"}
REDUCE_REAL = ["add", "mul", "max", "min", "logaddexp"]
REDUCE_INT = ["max", "min", "add"]
OUTRED = ["sum", "prod", "max", "min", "logsumexp", "mean", "std", "var", "all", "any"]
CORE_UNARY = set(UNARY_REAL) | set(UNARY_INT)
CORE_BINARY = set(BINARY_REAL) | set(BINARY_INT)
CORE_REDUCE = {"add", "mul", "max", "min", "logaddexp"}



ASSOC = {"add", "mul", "max", "min", "logaddexp", "and_", "or_", "xor"}
DISTRIBUTIVE = {("add", "mul"), ("max", "mul"), ("min", "mul"), ("max", "add"), ("min", "add"), ("or_", "and_"),
                ("logaddexp", "add")}


def subs_tags(a, vals):
    """classify a substitution map f(**vals) (vals: key -> E | int | float | str) by the features that matter
    to Tensor.eager_subs / substitute(): used to match known findings"""
    tags = set()
    renames = []  # (key, target name, kind)
    for k, v in vals.items():
        if k not in a.inputs:
            continue
        if isinstance(v, str):
            renames.append((k, v, "variable"))
        elif isinstance(v, E) and v.tag in ("variable", "slice"):
            (n,) = v.inputs
            renames.append((k, n, v.tag))
        names = list(v.inputs) if isinstance(v, E) else ([v] if isinstance(v, str) else [])
        identity = len(names) == 1 and names[0] == k and (isinstance(v, str) or v.tag == "variable")
        if not identity and any(n in vals and n in a.inputs for n in names):
            tags.add("subs-value-mentions-key")  # a value mentions a name that is being substituted
        if isinstance(v, E) and v.tag == "binary" and v.op in COMPARISONS:
            tags.add("bool-index")
        if isinstance(v, E) and v.tag == "slice" and any(t == "cat" for t in a.tags()):
            tags.add("cat-slice-value")
        if a.tag == "cat" and k != list(a.inputs)[-1] and list(a.inputs)[-1] in names:
            tags.add("subs-value-mentions-cat-name")  # free name of the value = the Cat's own index name
    renamed_keys = {k for k, _, _ in renames}
    for k, target, kind in renames:
        if target == k and kind == "variable":
            continue
        stays = target in a.inputs and target not in renamed_keys
        dup = [r for r in renames if r[1] == target and r[0] != k]
        clash = bool(dup) and not all(r[2] == "variable" for r in dup + [(k, target, kind)])
        selfdup = target in renamed_keys and target != k and any(r[0] == target and r[1] == target for r in renames)
        if stays or clash or selfdup:
            tags.add("rename-onto-existing-input")
            if kind == "slice":
                tags.add("slice-value")
    return tuple(sorted(tags))


class Family:
    name = None
    arity = 1
    leaf_values = False  # children after the first must be leaves

    def params(self, kids):
        return [None]

    def make(self, kids, p):
        raise NotImplementedError

    def pclass(self, p):
        return p


class FUnary(Family):
    name = "unary"

    def params(self, kids):
        (a,) = kids
        if is_real(a.out):
            return UNARY_REAL
        return UNARY_INT

    def make(self, kids, op):
        (a,) = kids
        if is_real(a.out):
            out = a.out
        elif op == "abs":
            out = a.out
        else:
            out = Dom(None, a.out.shape)  # funsor's generic rule says Bint[n]; the textbook has no such type
        xt = ("generic-bint-range",) if (not is_real(a.out) and op == "neg") else ()
        return E("unary", op, kids, "Unary(ops.%s, {0})" % op, a.inputs, out, core=op in CORE_UNARY, xtags=xt)


def int_binary_size(op, n, m):
    if n is None or m is None:
        return 2 if op in COMPARISONS else None
    if op in COMPARISONS:
        return 2
    if op == "add":
        return n + m - 1
    if op == "mul":
        return (n - 1) * (m - 1) + 1
    if op == "max":
        return max(n, m)
    if op == "min":
        return min(n, m)
    if op == "floordiv":
        return n
    if op == "mod":
        return max(0, m - 1)
    if op in ("and_", "or_", "xor") and n == 2 and m == 2:
        return 2
    return None


class FBinary(Family):
    name = "binary"
    arity = 2

    def params(self, kids):
        a, b = kids
        if is_real(a.out) and is_real(b.out):
            return BINARY_REAL
        if not is_real(a.out) and not is_real(b.out):
            return BINARY_INT
        return []

    def make(self, kids, op):
        a, b = kids
        inputs = merge(a.inputs, b.inputs)
        shape = bshape(a.out.shape, b.out.shape)
        if inputs is None or shape is None:
            return None
        if is_real(a.out):
            out = Dom(2, shape) if op in COMPARISONS else Dom("real", shape)
        else:
            n, m = a.out.size, b.out.size
            if n is None or m is None:
                return None
            if op in ("sub", "pow") and n != m:
                return None  # funsor's generic rule is only defined for equal dtypes
            if op in ("and_", "or_", "xor") and (n > 3 or m > 3):
                return None
            if op in ("floordiv", "mod") and m < 2:
                return None  # divisor domain {0}
            size = int_binary_size(op, n, m)
            if size is not None and size <= 0:
                return None
            out = Dom(size, shape)
        xt = []
        if not is_real(a.out):
            if op not in COMPARISONS:
                xt.append("bint-arith")
            if op == "sub":
                xt.append("generic-bint-range")
            if op == "floordiv":
                xt.append("floordiv-bint")
            if op in ("and_", "or_", "xor") and (a.out.size != 2 or b.out.size != 2):
                xt += ["generic-bint-range", "bitop-non-boolean"]
        return E("binary", op, kids, "Binary(ops.%s, {0}, {1})" % op, inputs, out, core=op in CORE_BINARY, xtags=xt)


class FMatmul(Family):
    name = "matmul"
    arity = 2

    def make(self, kids, p):
        a, b = kids
        if not (is_real(a.out) and is_real(b.out)) or not a.out.shape or not b.out.shape:
            return None
        inputs = merge(a.inputs, b.inputs)
        if inputs is None:
            return None
        try:
            shape = np.matmul(np.zeros(a.out.shape), np.zeros(b.out.shape)).shape
        except ValueError:
            return None
        return E("binary", "matmul", kids, "Binary(ops.matmul, {0}, {1})", inputs, real(*shape), core=False)


def int_names(e):
    return [k for k, d in e.inputs.items() if not is_real(d) and not d.shape]


class FReduce(Family):
    name = "reduce"

    def __init__(self, extra):
        self.extra = extra  # (name, size) of a variable no expression mentions, or None

    def params(self, kids):
        (a,) = kids
        names = int_names(a)
        opsl = REDUCE_REAL if is_real(a.out) else (REDUCE_INT if a.out.size is not None else [])
        ps = []
        for op in opsl:
            for r in range(1, len(names) + 1):
                for sub in itertools.combinations(names, r):
                    ps.append((op, sub, False))
            if self.extra and self.extra[0] not in a.inputs:
                ps.append((op, (self.extra[0],), True))
                if names:
                    ps.append((op, (names[0], self.extra[0]), True))
        return ps

    def pclass(self, p):
        return (p[0], len(p[1]), p[2])

    def make(self, kids, p):
        (a,) = kids
        op, names, unrelated = p
        inputs = OrderedDict((k, d) for k, d in a.inputs.items() if k not in names)
        ref = None
        if unrelated:
            parts = []
            for n in names:
                dom = a.inputs.get(n, bint(self.extra[1]))
                parts.append("Variable(%r, %s)" % (n, dom_src(dom)))
            rv = "frozenset([%s])" % ", ".join(parts)
            # Reduce over a variable its argument does not mention cannot be constructed under reflect
            # (KeyError in Reduce._alpha_convert); the reference is the Contraction with the same meaning.
            ref = "Contraction(ops.%s, ops.null, %s, {0})" % (op, rv)
        else:
            rv = "frozenset([%s])" % ", ".join(repr(n) for n in names)
        out = a.out
        if not is_real(out) and op == "add":
            out = Dom(None, out.shape)
        xt = ["reduce-unrelated-var"] if unrelated else []
        if not is_real(a.out) and op == "add":
            xt.append("reduce-bint-range")
        aop = {"truediv": "mul", "sub": "add"}.get(a.op, a.op) if a.tag == "binary" else None  # as normalize sees it
        if a.tag == "binary" and aop in ASSOC and (op, aop) not in DISTRIBUTIVE and not (
                op == aop and op in ("max", "min", "and_", "or_")):
            if aop != op or any(n not in k.inputs for n in names for k in a.kids):
                xt.append("reduce-over-nondistributive-binary")
        if op in ("max", "min"):
            sub = set(a.tags())
            if sub & {"binary:mul", "binary:truediv", "unary:reciprocal"} and sub & {"unary:neg", "binary:sub", "unary:log"}:
                xt.append("minmax-mul-negative")  # outside the (max|min, mul) carrier of non-negative data
        if a.tag == "stack" and any(n not in k.inputs for n in names for k in a.kids):
            xt.append("stack-part-missing-reduced-var")
        return E("reduce", op, kids, "{0}.reduce(ops.%s, %s)" % (op, rv), inputs, out,
                 core=op in CORE_REDUCE, nbind=1, ref=ref, xtags=xt)


class FOutReduce(Family):
    name = "outreduce"

    def params(self, kids):
        (a,) = kids
        rank = len(a.out.shape)
        if is_real(a.out):
            opsl = [o for o in OUTRED if o not in ("all", "any")]
        elif a.out.size == 2:
            opsl = ["all", "any"]
        else:
            return []
        axes = [None] + list(range(-rank, rank))
        if rank >= 2:
            axes += [(0, 1), (-1, 0)]
        if rank == 0:
            return [(o, None, False) for o in opsl]
        return [(o, ax, kd) for o in opsl for ax in axes for kd in (False, True)]

    def pclass(self, p):
        return (p[0], "tuple" if isinstance(p[1], tuple) else ("none" if p[1] is None else "int"), p[2])

    def make(self, kids, p):
        (a,) = kids
        op, axis, keepdims = p
        if a.out.shape:
            shape = np.sum(np.zeros(a.out.shape), axis=axis, keepdims=keepdims).shape
        else:
            shape = ()
        out = Dom(2, shape) if op in ("all", "any") else Dom("real", shape)
        opcls = {"sum": "SumOp", "prod": "ProdOp", "max": "AmaxOp", "min": "AminOp", "logsumexp": "LogsumexpOp",
                 "mean": "MeanOp", "std": "StdOp", "var": "VarOp", "all": "AllOp", "any": "AnyOp"}[op]
        if op in ("std", "var"):
            src = "Unary(ops.%s(%r, 0, %r), {0})" % (opcls, axis, keepdims)
        else:
            src = "Unary(ops.%s(%r, %r), {0})" % (opcls, axis, keepdims)
        return E("outreduce", op, kids, src, a.inputs, out, core=False)


RESHAPES = [(), (1,), (2,), (3,), (4,), (6,), (1, 2), (2, 1), (2, 2), (2, 3), (3, 2), (1, 3), (3, 1), (1, 1),
            (4, 1), (1, 4), (6, 1)]


class FReshape(Family):
    name = "reshape"

    def params(self, kids):
        (a,) = kids
        n = int(np.prod(a.out.shape)) if a.out.shape else 1
        return [s for s in RESHAPES if (int(np.prod(s)) if s else 1) == n and s != a.out.shape]

    def pclass(self, p):
        return len(p)

    def make(self, kids, shape):
        (a,) = kids
        return E("reshape", None, kids, "{0}.reshape(%r)" % (tuple(shape),), a.inputs,
                 Dom(a.out.size, tuple(shape)), core=False)


def _slice_src(x):
    if isinstance(x, slice):
        return "slice(%r, %r, %r)" % (x.start, x.stop, x.step)
    if x is Ellipsis:
        return "Ellipsis"
    if isinstance(x, tuple):
        return "(" + ", ".join(_slice_src(y) for y in x) + ("," if len(x) == 1 else "") + ")"
    return repr(x)


class FGetslice(Family):
    name = "getslice"

    def params(self, kids):
        (a,) = kids
        shape = a.out.shape
        if not shape:
            return []
        n = shape[0]
        ps = [0, n - 1, -1, slice(0, max(1, n - 1)), slice(1, None), slice(None, None, 2), Ellipsis,
              (None, 0), slice(-2, None), slice(None, -1)]
        if len(shape) >= 2:
            m = shape[1]
            ps += [(slice(None), m - 1), (Ellipsis, 0), (n - 1, slice(0, max(1, m - 1))),
                   (slice(1, None), slice(None, None, 2)), (0, Ellipsis), (slice(None), None, 0), (0, m - 1),
                   (Ellipsis, slice(1, None))]
        return ps

    def pclass(self, p):
        def c(x):
            return type(x).__name__

        return tuple(c(x) for x in p) if isinstance(p, tuple) else c(p)

    def make(self, kids, index):
        (a,) = kids
        try:
            shape = np.zeros(a.out.shape)[index].shape
        except IndexError:
            return None
        if 0 in shape or len(shape) > 3:
            return None
        return E("getslice", None, kids, "{0}[%s]" % _slice_src(index), a.inputs,
                 Dom(a.out.size, tuple(shape)), core=True)


class FGetitem(Family):
    """a[idx] / a[:, idx] with a funsor index"""

    name = "getitem"
    arity = 2

    def params(self, kids):
        a, idx = kids
        return [o for o in range(len(a.out.shape)) if o < 2]

    def make(self, kids, offset):
        a, idx = kids
        if is_real(idx.out) or idx.out.shape or idx.out.size is None:
            return None
        if offset >= len(a.out.shape) or idx.out.size != a.out.shape[offset]:
            return None
        inputs = merge(a.inputs, idx.inputs)
        if inputs is None:
            return None
        shape = a.out.shape[:offset] + a.out.shape[offset + 1:]
        pre = ":, " * offset
        xt = ()
        if idx.tag == "variable" and any(n in a.inputs for n in idx.inputs):
            xt = ("index-variable-names-existing-input",)
        if idx.tag == "binary" and idx.op in COMPARISONS:
            xt += ("bool-index",)
        return E("getitem", offset, kids, "{0}[%s{1}]" % pre, inputs, Dom(a.out.size, shape), core=True,
                 value_kids=(1,), xtags=xt)


class FLambda(Family):
    name = "lambda"

    def __init__(self, extra):
        self.extra = extra

    def params(self, kids):
        (a,) = kids
        if len(a.out.shape) >= 2:
            return []
        ps = [(n, a.inputs[n].size, True) for n in int_names(a)]
        if self.extra and self.extra[0] not in a.inputs:
            ps.append((self.extra[0], self.extra[1], False))
        return ps

    def pclass(self, p):
        return p[2]

    def make(self, kids, p):
        (a,) = kids
        name, size, _ = p
        inputs = OrderedDict((k, d) for k, d in a.inputs.items() if k != name)
        out = Dom(a.out.size, (size,) + a.out.shape)
        xt = [] if name in a.inputs else ["lambda-body-ignores-var"]
        if a.tag == "number":
            xt.append("number-part")
        return E("lambda", None, kids, "Lambda(Variable(%r, Bint[%d]), {0})" % (name, size), inputs, out,
                 core=True, nbind=1, xtags=xt)


class FStack(Family):
    name = "stack"
    arity = 2

    def params(self, kids):
        return ["s", "k", "i"]

    def make(self, kids, name):
        a, b = kids
        if a.out != b.out or a.out.size is None:
            return None
        if name in a.inputs or name in b.inputs:
            return None
        inputs = merge(OrderedDict([(name, bint(2))]), a.inputs, b.inputs)
        if inputs is None:
            return None
        # a part without any tensor leaf evaluates to a Number (Stack's eager rule is over Tensors only)
        numeric = [not any(t.startswith("tensor") for t in k.tags()) and k.ground for k in (a, b)]
        xt = ("number-part",) if "number" in (a.tag, b.tag) or any(numeric) else ()
        return E("stack", None, kids, "Stack(%r, ({0}, {1}))" % name, inputs, a.out, core=True, xtags=xt)


class FCat(Family):
    name = "cat"
    arity = 2

    def params(self, kids):
        a, b = kids
        common = [n for n in int_names(a) if n in b.inputs and not b.inputs[n].shape and not is_real(b.inputs[n])]
        ps = []
        for pn in common:
            ps.append((pn, pn))
            ps.append(("c", pn))
        return ps

    def pclass(self, p):
        return p[0] == p[1]

    def make(self, kids, p):
        a, b = kids
        name, pn = p
        if a.out != b.out or a.out.size is None:
            return None
        if name != pn and (name in a.inputs or name in b.inputs):
            return None
        rest_a = OrderedDict((k, d) for k, d in a.inputs.items() if k != pn)
        rest_b = OrderedDict((k, d) for k, d in b.inputs.items() if k != pn)
        inputs = merge(rest_a, rest_b)
        if inputs is None:
            return None
        inputs[name] = bint(a.inputs[pn].size + b.inputs[pn].size)
        return E("cat", None, kids, "Cat(%r, ({0}, {1}), %r)" % (name, pn), inputs, a.out, core=True,
                 nbind=1)


class FIndependent(Family):
    name = "independent"

    def params(self, kids):
        (a,) = kids
        reals = [k for k, d in a.inputs.items() if is_real(d)]
        return [(b, r) for b in int_names(a) for r in reals if len(a.inputs[r].shape) <= 1]

    def pclass(self, p):
        return None

    def make(self, kids, p):
        (a,) = kids
        b, r = p
        if not is_real(a.out) or "z" in a.inputs:
            return None
        inputs = OrderedDict((k, d) for k, d in a.inputs.items() if k not in (b, r))
        inputs["z"] = real(a.inputs[b].size, *a.inputs[r].shape)
        return E("independent", None, kids, "Independent({0}, 'z', %r, %r)" % (b, r), inputs, a.out,
                 core=False, nbind=2)


def einsum_equations(sa, sb):
    eqs = []
    ra, rb = len(sa), len(sb)
    cands = {
        (1, 1): ["a,a->", "a,b->ab", "a,a->a", "a,b->ba"],
        (2, 1): ["ab,b->a", "ab,a->b", "ab,b->ab", "ab,c->acb"],
        (1, 2): ["a,ab->b", "b,ab->a", "a,bc->cab"],
        (2, 2): ["ab,bc->ac", "ab,ab->", "ab,ba->a", "ab,cb->ac", "ab,ab->ba"],
    }
    for eq in cands.get((ra, rb), []):
        ins, out = eq.split("->")
        x, y = ins.split(",")
        sizes = {}
        ok = True
        for spec, shape in ((x, sa), (y, sb)):
            for s, n in zip(spec, shape):
                if sizes.setdefault(s, n) != n:
                    ok = False
        if ok:
            eqs.append((eq, tuple(sizes[s] for s in out)))
    return eqs


class FEinsum(Family):
    name = "einsum"
    arity = 2

    def params(self, kids):
        a, b = kids
        if not (is_real(a.out) and is_real(b.out)):
            return []
        return einsum_equations(a.out.shape, b.out.shape)

    def pclass(self, p):
        return p[0]

    def make(self, kids, p):
        a, b = kids
        eq, shape = p
        inputs = merge(a.inputs, b.inputs)
        if inputs is None or len(shape) > 3:
            return None
        return E("einsum", eq, kids, "Einsum(%r, {0}, {1})" % eq, inputs, real(*shape), core=False)


class FFinStack(Family):
    name = "opstack"
    arity = 2

    def params(self, kids):
        a, b = kids
        if a.out != b.out or len(a.out.shape) >= 2 or a.out.size is None:
            return []
        r = len(a.out.shape)
        return [("stack", d) for d in range(-r - 1, r + 1)] + ([("cat", d) for d in range(-r, r)] if r else [])

    def make(self, kids, p):
        a, b = kids
        kind, d = p
        inputs = merge(a.inputs, b.inputs)
        if inputs is None:
            return None
        z = np.zeros(a.out.shape)
        shape = (np.stack([z, z], d) if kind == "stack" else np.concatenate([z, z], d)).shape
        return E("op" + kind, d, kids, "ops.%s(({0}, {1}), %d)" % (kind, d), inputs,
                 Dom(a.out.size, shape), core=False)


FRESH = ["p", "q"]


class FSubs0(Family):
    """substitution of literals / renamings: f(i=0), f(i='p'), f(i='j'), swaps, diagonals"""

    name = "subs0"

    def params(self, kids):
        (a,) = kids
        names = int_names(a)
        ps = []
        for n in names:
            size = a.inputs[n].size
            ps.append(("int", ((n, 0),)))
            if size > 1:
                ps.append(("int", ((n, size - 1),)))
            ps.append(("fresh", ((n, "p"),)))
            ps.append(("self", ((n, n),)))
            for m in names:
                if m != n and a.inputs[m].size == size:
                    ps.append(("onto", ((n, m),)))
        for n, m in itertools.permutations(names, 2):
            if a.inputs[n].size == a.inputs[m].size:
                if n < m:
                    ps.append(("swap", ((n, m), (m, n))))
                    ps.append(("diag", ((n, "p"), (m, "p"))))
            ps.append(("int+fresh", ((n, 0), (m, "q"))))
            if a.inputs[n].size == a.inputs[m].size or True:
                ps.append(("int+reuse", ((n, 0), (m, n))))
        for r in [k for k, d in a.inputs.items() if is_real(d) and not d.shape]:
            ps.append(("realnum", ((r, 0.75),)))
            ps.append(("realfresh", ((r, "w"),)))
        ps.append(("foreign", (("zz", 0),)))
        return ps

    def pclass(self, p):
        return p[0]

    def make(self, kids, p):
        (a,) = kids
        kind, pairs = p
        keys = [k for k, _ in pairs if k in a.inputs]
        inputs = OrderedDict((k, d) for k, d in a.inputs.items() if k not in keys)
        order = list(a.inputs)
        for k, v in sorted(pairs, key=lambda kv: order.index(kv[0]) if kv[0] in order else -1):
            if k not in a.inputs:
                continue
            if isinstance(v, str):
                dom = a.inputs[k]
                if inputs.setdefault(v, dom) != dom:
                    return None
        args = ", ".join("%s=%r" % (k, v) for k, v in pairs)
        xt = subs_tags(a, dict(pairs))
        return E("subs", kind, kids, "{0}(%s)" % args, inputs, a.out, core=True, nbind=len(keys), xtags=xt)


class FSubs1(Family):
    """substitution of one funsor value: f(key=value)"""

    name = "subs1"
    arity = 2

    def params(self, kids):
        a, v = kids
        return [k for k, d in a.inputs.items() if d == v.out]

    def pclass(self, p):
        return None

    def make(self, kids, key):
        a, v = kids
        inputs = OrderedDict((k, d) for k, d in a.inputs.items() if k != key)
        inputs = merge(inputs, v.inputs)
        if inputs is None:
            return None
        xt = subs_tags(a, {key: v})
        return E("subs", "value", kids, "{0}(%s={1})" % key, inputs, a.out,
                 core=v.tag in ("number", "tensor", "variable"), nbind=1, value_kids=(1,), xtags=xt)


class FSubs2(Family):
    name = "subs2"
    arity = 3
    leaf_values = True

    def params(self, kids):
        a, v, w = kids
        ps = []
        for k1, d1 in a.inputs.items():
            for k2, d2 in a.inputs.items():
                if k1 != k2 and d1 == v.out and d2 == w.out:
                    ps.append((k1, k2))
        return ps

    def pclass(self, p):
        return None

    def make(self, kids, p):
        a, v, w = kids
        k1, k2 = p
        inputs = OrderedDict((k, d) for k, d in a.inputs.items() if k not in p)
        order = list(a.inputs)
        first, second = (v, w) if order.index(k1) < order.index(k2) else (w, v)
        inputs = merge(inputs, first.inputs, second.inputs)
        if inputs is None:
            return None
        xt = subs_tags(a, {k1: v, k2: w})
        return E("subs", "value2", kids, "{0}(%s={1}, %s={2})" % (k1, k2), inputs, a.out,
                 core=all(x.tag in ("number", "tensor", "variable") for x in (v, w)), nbind=2,
                 value_kids=(1, 2), xtags=xt)


# ----------------------------------------------------------------------------------------------
# leaves of a universe


def leaves(sizes, rich=False):
    """sizes: dict name -> size for i, j, k"""
    si, sj, sk = sizes["i"], sizes["j"], sizes["k"]
    L = []
    k = itertools.count()

    def T(names, event=(), dtype="real"):
        L.append(tensor(names, event, next(k), sizes, dtype))

    T(())
    T(("i",))
    T(("j",))
    T(("i", "j"))
    T(("j", "i"))
    T(("j", "k"))
    T(("i", "j", "k"))
    T((), (2,))
    T(("i",), (2,))
    T((), (3,))
    T(("j",), (3,))
    T(("i",), (2, 3))
    T((), (2, 2))
    T(("j",), (3, 2))
    T(("k",), (1,))
    if rich:
        T(("k", "i"))
        T(("i", "k"), (3,))
        T((), (2, 3))
        T((), (1, 2))
    # bounded-int tensors: usable as indices into i / j / k or into event dims
    T(("i",), (), sj)
    T(("j",), (), si)
    T((), (), sk)
    T(("i", "k"), (), sj)
    T(("j",), (), 2)
    T(("i",), (2,), 3)
    T(("k",), (), 3)
    if rich:
        T(("j", "i"), (), sk)
        T((), (2,), 2)
    L.append(number(0.5))
    L.append(number(2.0))
    L.append(number(1, max(sj, 2)))
    L.append(number(0, si))
    L.append(number(1, 2))
    for n in ("i", "j", "k"):
        L.append(variable(n, bint(sizes[n])))
    L.append(variable("x", real()))
    L.append(variable("y", real(2)))
    for e in (slice_("i", 0, sj, 1, sj), slice_("p", 1, sj, 2, sj), slice_("j", 0, 2, 1, 3), slice_("k", 1, si, 1, si)):
        if e is not None:
            L.append(e)
    return L


def families(sizes):
    extra = ("k", sizes["k"])
    return [FUnary(), FBinary(), FMatmul(), FReduce(extra), FOutReduce(), FReshape(), FGetslice(), FGetitem(),
            FLambda(extra), FStack(), FCat(), FIndependent(), FEinsum(), FFinStack(), FSubs0(), FSubs1(), FSubs2()]


def _rng(seed, key):
    return np.random.RandomState((zlib.crc32(repr(key).encode()) ^ (seed * 2654435761)) & 0x7FFFFFFF)


def next_level(pools, fams, cap, seed, stats, tries, max_rank=2):
    """pools: list of levels, each a dict tag -> [E]. Returns the next level (dict tag -> [E]).

    Every candidate of the new level has at least one child from the last level.  For each family and
    each tuple of child slots (constructor tag, level) the child tuples are enumerated completely when
    there are at most ``tries`` of them and sampled (``tries`` draws, seeded) otherwise; for each child
    tuple every parameter is tried; at most ``cap`` well-typed expressions are kept per shape
    (family, parameter class, child slots)."""
    last = len(pools) - 1
    slots = {}
    for lvl, pool in enumerate(pools):
        for tag, es in pool.items():
            slots[(tag, lvl)] = es
    slot_keys = sorted(slots)
    new = {}
    seen_src = set()
    for fam in fams:
        for child_slots in itertools.product(slot_keys, repeat=fam.arity):
            if not any(lvl == last for _, lvl in child_slots):
                continue
            if fam.leaf_values and any(lvl != 0 for _, lvl in child_slots[1:]):
                continue
            lists = [slots[c] for c in child_slots]
            n_kids = 1
            for lst in lists:
                n_kids *= len(lst)
            exhaustive_kids = n_kids <= tries
            if exhaustive_kids:
                kid_iter = itertools.product(*lists)
            else:
                rng = _rng(seed, (fam.name, child_slots, "kids"))
                kid_iter = (tuple(lst[rng.randint(len(lst))] for lst in lists) for _ in range(tries))
            by_class = {}
            for kids in kid_iter:
                for p in fam.params(kids):
                    by_class.setdefault(fam.pclass(p), []).append((kids, p))
            for pc, cands in sorted(by_class.items(), key=lambda kv: repr(kv[0])):
                shape_key = (fam.name, pc, child_slots)
                order = list(range(len(cands)))
                complete = exhaustive_kids
                if len(cands) > cap:
                    _rng(seed, shape_key).shuffle(order)
                kept = 0
                for idx in order:
                    kids, p = cands[idx]
                    e = fam.make(kids, p)
                    if e is None or len(e.out.shape) > max_rank + 1:
                        continue
                    if e.src in seen_src:
                        continue
                    if kept < cap:
                        seen_src.add(e.src)
                        new.setdefault(e.tag, []).append(e)
                        kept += 1
                    else:
                        complete = False
                        break
                stats["shapes"] = stats.get("shapes", 0) + 1
                if not complete:
                    stats["capped_or_sampled_shapes"] = stats.get("capped_or_sampled_shapes", 0) + 1
                stats["kept"] = stats.get("kept", 0) + kept
    return new


def generate(sizes, depth, caps, seed=0, rich=False, tries=(ENUM_MAX, 24, 12)):
    """All expressions up to ``depth`` for one universe; caps[d-1] bounds level d per shape."""
    L = leaves(sizes, rich)
    level0 = {}
    for e in L:
        level0.setdefault(e.tag, []).append(e)
    pools = [level0]
    stats = {"leaves": len(L)}
    fams = families(sizes)
    for d in range(1, depth + 1):
        st = {}
        pools.append(next_level(pools, fams, caps[d - 1], seed, st, tries[d - 1]))
        stats["level%d" % d] = st
    out = []
    for lvl, pool in enumerate(pools):
        for tag in sorted(pool):
            out.extend(pool[tag])
    seen = {e.src for e in out}
    extra = [e for e in targeted(sizes) if e.src not in seen]
    stats["targeted"] = len(extra)
    out.extend(extra)
    return out, stats


def targeted(sizes):
    """expressions every run must contain (the level caps sample the rest): a reduction over a pointwise binary of two
    real tensors for every (reduce op, binary op) pair, with operands that both mention / one lacks / both lack the reduced
    input, and a product over such a sum -- the shapes on which normal forms, distribution and multiplicities matter."""
    out = []
    fb, fr = FBinary(), FReduce(("z", 2))
    ops_b = ["add", "mul", "max", "min", "logaddexp", "sub"]
    leaf_sets = [(("i", "j"), ("j",)), (("j",), ("i", "j")), (("i", "j"), ("i", "j")), (("i",), ("j",)), (("i", "j"), ())]
    k = 0
    for na, nb in leaf_sets:
        a = tensor(na, (), 3 + k, sizes)
        b = tensor(nb, (), 7 + k, sizes) if nb else number(0.5)
        k += 1
        for bop in ops_b:
            e = fb.make((a, b), bop)
            if e is None:
                continue
            for rop in REDUCE_REAL:
                for names in (("i",), ("i", "j")):
                    if not all(n in e.inputs for n in names):
                        continue
                    r = fr.make((e,), (rop, names, False))
                    if r is not None:
                        out.append(r)
            # a product over the sum, reduced: distribution then multiplicities
            c = tensor(("i", "k"), (), 11, sizes)
            m = fb.make((c, e), "mul")
            if m is not None and bop in ("add", "logaddexp"):
                for rop in ("add", "logaddexp"):
                    r = fr.make((m,), (rop, ("i",), False))
                    if r is not None:
                        out.append(r)
    return out


UNIVERSES_QUICK = [dict(i=2, j=2, k=3), dict(i=1, j=3, k=2)]
UNIVERSES_THOROUGH = [dict(i=2, j=2, k=3), dict(i=1, j=3, k=2), dict(i=3, j=3, k=1), dict(i=2, j=4, k=2),
                      dict(i=4, j=2, k=3)]


if __name__ == "__main__":
    import sys
    import time

    t0 = time.time()
    depth = int(sys.argv[1]) if len(sys.argv) > 1 else 2
    caps = [int(x) for x in sys.argv[2].split(",")] if len(sys.argv) > 2 else [40, 4]
    es, stats = generate(UNIVERSES_QUICK[0], depth, caps)
    print(len(es), stats, round(time.time() - t0, 2))
    from collections import Counter

    print(Counter((e.depth, e.tag) for e in es))
    rng = np.random.RandomState(0)
    for i in rng.choice(len(es), 15):
        print(es[i].depth, es[i].src, dict(es[i].inputs), es[i].out)
