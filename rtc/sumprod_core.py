"""Core of the bounded driver drv_sumprod (C08-C11): semirings, the naive named-table oracle, case builders
and the per-case contract evaluation.

This file depends on numpy and funsor only (NOT on the rest of /verif), because the text of this file is the
body of every replay script: ``replay_src = <this file> + "CASE = ...; sys.exit(replay_main(CASE))"``.

ORACLE (independent of funsor): a *named table* NT = (names, ndarray) with one axis per name.  The three
operations are broadcasting product, axis reduction with the numpy ufunc of the semiring's sum, and renaming.
No funsor object ever enters these functions; data are drawn with numpy and handed both to funsor (wrapped in
``Tensor``) and to the oracle (as NT).
"""
import itertools
import math
import sys
import traceback
from collections import OrderedDict

import numpy as np

if "/repo" not in sys.path:
    sys.path.insert(0, "/repo")

import funsor  # noqa: E402
import funsor.ops as ops  # noqa: E402
from funsor.domains import Bint, Real  # noqa: E402
from funsor.interpretations import eager, lazy, normalize, reflect  # noqa: E402
from funsor.interpreter import reinterpret  # noqa: E402
from funsor.tensor import Tensor  # noqa: E402
from funsor.terms import Cat, Funsor, Number, Slice, Stack, Variable  # noqa: E402

funsor.set_backend("numpy")

RTOL = 1e-6
ATOL = 1e-8


def close(a, b, rtol=RTOL, atol=ATOL):
    """Tolerance of the contracts (fixed; never tuned to silence a report).
    inf/-inf/nan are compared structurally."""
    a = np.asarray(a)
    b = np.asarray(b)
    if a.shape != b.shape:
        try:
            a, b = np.broadcast_arrays(a, b)
        except ValueError:
            return False
    if a.dtype == object or b.dtype == object:
        return bool(np.all(a == b))
    if a.dtype.kind in "biu" and b.dtype.kind in "biu":
        return bool(np.array_equal(a, b))
    a = a.astype(float)
    b = b.astype(float)
    fin = np.isfinite(a) & np.isfinite(b)
    if not np.array_equal(np.isnan(a), np.isnan(b)):
        return False
    nonfin = ~fin & ~np.isnan(a)
    if not np.array_equal(a[nonfin], b[nonfin]):
        return False
    return bool(np.all(np.abs(a[fin] - b[fin]) <= atol + rtol * np.maximum(np.abs(a[fin]), np.abs(b[fin]))))


# =====================================================================================================
# semirings
# =====================================================================================================


class Semiring:
    def __init__(self, name, sum_op, prod_op, np_sum, np_prod, zero, one, carrier):
        self.name = name
        self.sum_op = sum_op
        self.prod_op = prod_op
        self.np_sum = np_sum  # numpy binary ufunc with .reduce
        self.np_prod = np_prod
        self.zero = zero
        self.one = one
        self.carrier = carrier  # "real" | "nonneg" | "bool"

    def gen(self, rs, shape):
        """well-conditioned data on the carrier of the semiring"""
        shape = tuple(shape)
        if self.carrier == "bool":
            return rs.rand(*shape) < 0.6
        if self.carrier == "nonneg":
            return 0.3 + 1.5 * rs.rand(*shape)
        if self.name == "add_mul":
            return (0.4 + 1.1 * rs.rand(*shape)) * np.where(rs.rand(*shape) < 0.3, -1.0, 1.0)
        return rs.randn(*shape)

    def power(self, arr, k):
        """k-fold semiring product of arr with itself (k integer >= 0)"""
        out = np.full(np.shape(arr), self.one, dtype=np.asarray(arr).dtype)
        for _ in range(int(k)):
            out = self.np_prod(out, arr)
        return out

    @property
    def dtype(self):
        return 2 if self.carrier == "bool" else "real"


SEMIRINGS = OrderedDict(
    (s.name, s)
    for s in [
        Semiring("add_mul", ops.add, ops.mul, np.add, np.multiply, 0.0, 1.0, "real"),
        Semiring("logaddexp_add", ops.logaddexp, ops.add, np.logaddexp, np.add, -math.inf, 0.0, "real"),
        Semiring("max_add", ops.max, ops.add, np.maximum, np.add, -math.inf, 0.0, "real"),
        Semiring("min_add", ops.min, ops.add, np.minimum, np.add, math.inf, 0.0, "real"),
        Semiring("max_mul", ops.max, ops.mul, np.maximum, np.multiply, 0.0, 1.0, "nonneg"),
        Semiring("min_mul", ops.min, ops.mul, np.minimum, np.multiply, math.inf, 1.0, "nonneg"),
        Semiring("or_and", ops.or_, ops.and_, np.logical_or, np.logical_and, False, True, "bool"),
    ]
)
FIVE = ["add_mul", "logaddexp_add", "max_add", "min_add", "max_mul"]


# =====================================================================================================
# named tables (the oracle's only data structure)
# =====================================================================================================


def nt_view(nt, names_out):
    """array of nt with axes ordered/inserted as names_out (size-1 axes for absent names)"""
    names, arr = nt
    arr = np.asarray(arr)
    assert arr.ndim == len(names), (names, arr.shape)
    assert set(names) <= set(names_out), (names, names_out)
    present = [n for n in names_out if n in names]
    arr = np.transpose(arr, [names.index(n) for n in present])
    shape = []
    k = 0
    for n in names_out:
        if n in names:
            shape.append(arr.shape[k])
            k += 1
        else:
            shape.append(1)
    return arr.reshape(shape)


def nt_expand(nt, names_out, sizes):
    """full table over names_out"""
    return np.broadcast_to(nt_view(nt, tuple(names_out)), tuple(sizes[n] for n in names_out))


def nt_mul(sr, a, b):
    names = tuple(a[0]) + tuple(n for n in b[0] if n not in a[0])
    return (names, sr.np_prod(nt_view(a, names), nt_view(b, names)))


def nt_add(sr, a, b):
    """pointwise semiring SUM of two tables"""
    names = tuple(a[0]) + tuple(n for n in b[0] if n not in a[0])
    return (names, sr.np_sum(nt_view(a, names), nt_view(b, names)))


def nt_reduce(sr, a, rvars, sizes=None):
    """semiring-sum out rvars.  A variable the table does not mention is first materialised (needs sizes)."""
    names, arr = a
    rvars = [v for v in dict.fromkeys(rvars)]
    missing = [v for v in rvars if v not in names]
    if missing:
        assert sizes is not None
        names2 = tuple(names) + tuple(missing)
        arr = nt_expand(a, names2, {**{n: s for n, s in zip(names, np.shape(arr))}, **{m: sizes[m] for m in missing}})
        names = names2
    axes = tuple(names.index(v) for v in rvars)
    if not axes:
        return (tuple(names), np.asarray(arr))
    out = sr.np_sum.reduce(np.asarray(arr), axis=axes)
    return (tuple(n for n in names if n not in rvars), np.asarray(out))


def nt_prod_reduce(sr, a, rvars):
    """semiring-PRODUCT out rvars (plates)"""
    names, arr = a
    axes = tuple(names.index(v) for v in rvars)
    if not axes:
        return a
    out = sr.np_prod.reduce(np.asarray(arr), axis=axes)
    return (tuple(n for n in names if n not in rvars), np.asarray(out))


def nt_rename(a, m):
    return (tuple(m.get(n, n) for n in a[0]), a[1])


def nt_index(a, name, i):
    names, arr = a
    if name not in names:
        return a
    ax = names.index(name)
    return (tuple(n for n in names if n != name), np.take(arr, i, axis=ax))


def nt_unit(sr):
    return ((), np.asarray(sr.one))


def nt_joint(sr, factors):
    acc = nt_unit(sr)
    for f in factors:
        acc = nt_mul(sr, acc, f)
    return acc


def nt_pointwise_loop(sr, factors, keep, elim, sizes):
    """The dumbest possible evaluation (explicit python loops over every point of the joint space); used by the
    self-test to validate the broadcasting oracle, and by small cases directly."""
    keep = tuple(keep)
    elim = tuple(elim)
    out = np.empty(tuple(sizes[k] for k in keep), dtype=bool if sr.carrier == "bool" else float)
    for kp in itertools.product(*(range(sizes[k]) for k in keep)):
        env = dict(zip(keep, kp))
        acc = None
        for ep in itertools.product(*(range(sizes[e]) for e in elim)):
            env.update(zip(elim, ep))
            val = sr.one
            for names, arr in factors:
                val = sr.np_prod(val, np.asarray(arr)[tuple(env[n] for n in names)])
            acc = val if acc is None else sr.np_sum(acc, val)
        out[kp] = acc
    return (keep, out)


# =====================================================================================================
# observing funsor results
# =====================================================================================================


class NotGround(Exception):
    pass


def to_nt(f):
    if isinstance(f, Number):
        return ((), np.asarray(f.data))
    if isinstance(f, Tensor):
        if f.output.shape != ():
            raise NotGround("non-scalar output %s" % (f.output,))
        return (tuple(f.inputs), np.asarray(f.data))
    raise NotGround(type(f).__name__)


def eval_at(f, point):
    sub = {k: v for k, v in point.items() if k in f.inputs}
    if sub:
        f = f(**sub)
    return to_nt(f)


def mk_tensor(names, arr, sizes, dtype="real"):
    return Tensor(np.asarray(arr), OrderedDict((n, Bint[sizes[n]]) for n in names), dtype)


def compare(got_nt, want_nt, sizes):
    """-> None if equal, else a detail string.  inputs(got) must be among inputs(want)."""
    gn, ga = got_nt
    wn, wa = want_nt
    extra = [n for n in gn if n not in wn]
    if extra:
        return "result has inputs %s not among the naive result's inputs %s" % (extra, list(wn))
    for n, s in zip(gn, np.shape(ga)):
        if sizes.get(n, s) != s:
            return "input %s has size %s, expected %s" % (n, s, sizes[n])
    g = nt_expand(got_nt, wn, sizes)
    w = nt_expand(want_nt, wn, sizes)
    if not close(g, w):
        return "value mismatch over %s:\n got  %s\n want %s" % (list(wn), np.array2string(np.asarray(g), precision=8).replace("\n", " "), np.array2string(np.asarray(w), precision=8).replace("\n", " "))
    return None


class Out:
    """what evaluating one case produced"""

    def __init__(self):
        self.evals = []  # (contract, key, nontrivial)
        self.declined = []  # (contract, reason)
        self.fails = []  # (contract, detail, tags)

    def ok(self, contract, key, nontrivial=True):
        self.evals.append((contract, key, bool(nontrivial)))

    def decline(self, contract, reason):
        self.declined.append((contract, reason))

    def fail(self, contract, detail, tags):
        self.fails.append((contract, detail, tuple(tags)))


def exc_reason(e):
    tb = traceback.extract_tb(e.__traceback__)
    where = ""
    for fr in reversed(tb):
        if "/repo/funsor" in fr.filename:
            where = "%s:%s" % (fr.filename.split("/repo/")[-1], fr.name)
            break
    return "%s@%s" % (type(e).__name__, where)


def observe(out, contract, key, nontrivial, thunk, want_at, sizes, points, tags):
    """Run the real code (thunk -> funsor), evaluate at each real sample point and compare with want_at(point)."""
    try:
        res = thunk()
    except Exception as e:  # the properties allow declining by raising
        out.decline(contract, exc_reason(e))
        return None
    try:
        nts = [eval_at(res, pt) for pt in points]
    except NotGround as e:
        out.decline(contract, "stays-lazy:%s" % e)
        return res
    except Exception as e:
        out.decline(contract, "subs:" + exc_reason(e))
        return res
    out.ok(contract, key, nontrivial)
    for pt, nt in zip(points, nts):
        d = compare(nt, want_at(pt), sizes)
        if d is not None:
            out.fail(contract, ("at %s: " % (pt,) if pt else "") + d, tags)
            break
    return res


# parameter operand: how a free real parameter "w" enters an operand, on funsor side and on oracle side
PARAM_POINTS = [{"w": 0.7}, {"w": 1.9}]


def param_ops(sr, kind):
    """-> (funsor binary op, numpy binary op) combining a tensor operand with the parameter"""
    if kind == "prod":
        return sr.prod_op, sr.np_prod
    if kind == "other":
        if sr.prod_op is ops.mul:
            return ops.add, np.add
        if sr.prod_op is ops.add:
            return ops.mul, np.multiply
    raise ValueError(kind)


# =====================================================================================================
# C10  Markov products
# =====================================================================================================


def markov_setup(case):
    sr = SEMIRINGS[case["sr"]]
    rs = np.random.RandomState(case["seed"])
    T = case["duration"]
    sizes = {"time": T}
    step = {}
    for i, n in enumerate(case["pairs"]):
        sizes["p%d" % i] = n
        sizes["c%d" % i] = n
        step["p%d" % i] = "c%d" % i
    for i, n in enumerate(case["batch"]):
        sizes["b%d" % i] = n
    names = ["b%d" % i for i in range(len(case["batch"]))]
    if case["time_dep"]:
        names.append("time")
    names += list(step.keys()) + list(step.values())
    if case.get("lacks"):
        names.remove(case["lacks"])
    names = [names[i] for i in rs.permutation(len(names))]
    data = sr.gen(rs, [sizes[n] for n in names])
    return sr, T, sizes, step, tuple(names), data


def markov_oracle(sr, T, sizes, step, names, data):
    """explicit left-to-right fold over time with the intermediate state summed out"""
    drop = {c: "_mid_%s" % c for c in step.values()}
    p2drop = {p: drop[c] for p, c in step.items()}
    acc = nt_index((names, data), "time", 0)
    for t in range(1, T):
        f = nt_index((names, data), "time", t)
        acc = nt_reduce(sr, nt_mul(sr, nt_rename(acc, drop), nt_rename(f, p2drop)), list(drop.values()), {d: sizes[c] for c, d in drop.items()})
    return acc


def check_markov(case, out):
    sr, T, sizes, step, names, data = markov_setup(case)
    param = case.get("param")
    tags0 = [sr.name] + (["time-independent"] if not case["time_dep"] else []) + (["lacks-" + case["lacks"][0]] if case.get("lacks") else []) + (["param-" + param] if param else [])
    time = Variable("time", Bint[T])
    base = mk_tensor(names, data, sizes, sr.dtype)
    if param:
        fop, nop = param_ops(sr, param)
        trans = fop(base, Variable("w", Real))
        points = PARAM_POINTS
        want_cache = {}

        def want_at(pt):
            k = pt["w"]
            if k not in want_cache:
                want_cache[k] = markov_oracle(sr, T, sizes, step, names, nop(data, k))
            return want_cache[k]

    else:
        trans = base
        points = [{}]
        want = markov_oracle(sr, T, sizes, step, names, data)

        def want_at(pt):
            return want

    nontrivial = T >= 2 and max(case["pairs"]) >= 2
    key = tuple(sorted((k, str(v)) for k, v in case.items()))
    S = funsor.sum_product

    def run(name, thunk, extra_tags=(), want_fn=want_at):
        observe(out, "C10." + name.split("[")[0], (key, name), nontrivial, thunk, want_fn, sizes, points, tags0 + [name.split("[")[0]] + list(extra_tags))

    run("sequential_sum_product", lambda: S.sequential_sum_product(sr.sum_op, sr.prod_op, trans, time, dict(step)))
    run("naive_sequential_sum_product", lambda: S.naive_sequential_sum_product(sr.sum_op, sr.prod_op, trans, time, dict(step)))
    for ns in range(1, T + 1):
        run("mixed_sequential_sum_product[%d]" % ns, lambda: S.mixed_sequential_sum_product(sr.sum_op, sr.prod_op, trans, time, dict(step), num_segments=ns), ["segments-%s" % ("1" if ns == 1 else "T" if ns == T else "divides" if T % ns == 0 else "remainder")])
    run("mixed_sequential_sum_product[None]", lambda: S.mixed_sequential_sum_product(sr.sum_op, sr.prod_op, trans, time, dict(step)))
    run("MarkovProduct.eager", lambda: S.MarkovProduct(sr.sum_op, sr.prod_op, trans, time, dict(step)))

    def lazy_mp():
        with lazy:
            mp = S.MarkovProduct(sr.sum_op, sr.prod_op, trans, time, dict(step))
        assert isinstance(mp, S.MarkovProduct)
        return reinterpret(mp)

    run("MarkovProduct.lazy", lazy_mp)

    ren = {"c0": "zz"}
    sizes["zz"] = sizes["c0"]

    def lazy_mp_rename():
        with lazy:
            mp = S.MarkovProduct(sr.sum_op, sr.prod_op, trans, time, dict(step))
            mp = mp(c0="zz")
        return reinterpret(mp)

    def eager_mp_rename():
        with lazy:
            mp = S.MarkovProduct(sr.sum_op, sr.prod_op, trans, time, dict(step))
        return reinterpret(mp(c0="zz"))

    run("MarkovProduct.lazy_rename", lazy_mp_rename, want_fn=lambda pt: nt_rename(want_at(pt), ren))
    run("MarkovProduct.rename_of_lazy", eager_mp_rename, want_fn=lambda pt: nt_rename(want_at(pt), ren))


# ---- time-lagged models ---------------------------------------------------------------------------------


def sb_setup(case):
    sr = SEMIRINGS[case["sr"]]
    rs = np.random.RandomState(case["seed"])
    T = case["duration"]
    sizes = {"time": T}
    names = ["time"]
    for i, n in enumerate(case["globals"]):
        sizes["g%d" % i] = n
        names.append("g%d" % i)
    for v, (n, lags) in zip("abc", case["vars"]):
        for k in [0] + list(lags):
            sizes["_PREV_" * k + v] = n
            names.append("_PREV_" * k + v)
    names = [names[i] for i in rs.permutation(len(names))]
    data = sr.gen(rs, [sizes[n] for n in names])
    return sr, T, sizes, tuple(names), data


def sb_oracle(sr, T, sizes, names, data, case):
    """unroll: variable v at absolute time s is 'v@s'; factor t mentions v@(t-k) for every lag k of v (and k=0).
    Eliminate v@s for 0 <= s <= T-2 by a left-to-right fold over t, summing a copy out as soon as no later factor
    mentions it.  Output: v@(T-1) is called v, v@(-j) is called _PREV_^j v."""
    vars_ = {v: (n, list(lags)) for v, (n, lags) in zip("abc", case["vars"])}
    usizes = {}
    factors = []
    for t in range(T):
        ren = {}
        for v, (n, lags) in vars_.items():
            for k in [0] + lags:
                ren["_PREV_" * k + v] = "%s@%d" % (v, t - k)
                usizes["%s@%d" % (v, t - k)] = n
        factors.append(nt_rename(nt_index((names, data), "time", t), ren))
    acc = nt_unit(sr)
    for t, f in enumerate(factors):
        acc = nt_mul(sr, acc, f)
        later = set()
        for g in factors[t + 1 :]:
            later |= set(g[0])
        dead = [n for n in acc[0] if "@" in n and 0 <= int(n.split("@")[1]) <= T - 2 and n not in later]
        acc = nt_reduce(sr, acc, dead)
    ren = {}
    for n in acc[0]:
        if "@" in n:
            v, s = n.split("@")
            s = int(s)
            assert s == T - 1 or s < 0
            ren[n] = v if s == T - 1 else "_PREV_" * (-s) + v
    outsizes = dict(sizes)
    for n, m in ren.items():
        outsizes[m] = usizes[n]
    return nt_rename(acc, ren), outsizes


def check_sb(case, out):
    sr, T, sizes, names, data = sb_setup(case)
    S = funsor.sum_product
    want, osizes = sb_oracle(sr, T, sizes, names, data, case)
    trans = mk_tensor(names, data, sizes, sr.dtype)
    time = Variable("time", Bint[T])
    gv = frozenset("g%d" % i for i in range(len(case["globals"])))
    lagsets = [tuple(l) for _, l in case["vars"]]
    period = 1
    for ls in lagsets:
        for k in ls:
            period = period * k // math.gcd(period, k)
    tags0 = [sr.name, "lags-" + "/".join("".join(map(str, l)) or "0" for l in lagsets), "T%%period=%d" % (T % period) if T % period else "T-multiple-of-period"]
    nontrivial = T >= 2 and any(l for l in lagsets)
    key = tuple(sorted((k, str(v)) for k, v in case.items()))
    naive = observe(out, "C10.naive_sarkka_bilmes_product", (key, "naive"), nontrivial, lambda: S.naive_sarkka_bilmes_product(sr.sum_op, sr.prod_op, trans, time, gv), lambda pt: want, osizes, [{}], tags0 + ["naive_sarkka_bilmes_product"])
    for npd in case["num_periods"]:
        res = observe(out, "C10.sarkka_bilmes_product", (key, "sb", npd), nontrivial, lambda: S.sarkka_bilmes_product(sr.sum_op, sr.prod_op, trans, time, gv, num_periods=npd), lambda pt: want, osizes, [{}], tags0 + ["sarkka_bilmes_product", "num_periods-%d" % npd])
        if res is not None and naive is not None:
            try:
                a, b = to_nt(res), to_nt(naive)
            except NotGround:
                continue
            out.ok("C10.sarkka_bilmes_vs_naive", (key, "sbvn", npd), nontrivial)
            d = compare(a, b, osizes) or compare(b, a, osizes)
            if d is not None:
                out.fail("C10.sarkka_bilmes_vs_naive", d, tags0 + ["sarkka_bilmes_vs_naive", "num_periods-%d" % npd])


# =====================================================================================================
# dispatch / replay
# =====================================================================================================

CHECKERS = {"markov": check_markov, "sb": check_sb}


def check_case(case):
    out = Out()
    np.random.seed(case.get("seed", 0))
    CHECKERS[case["kind"]](case, out)
    return out


def replay_main(case):
    out = check_case(case)
    for c, d, t in out.fails:
        print("VIOLATION", c, t, "\n", d)
    print("evaluations:", len(out.evals), "declined:", len(out.declined), "failures:", len(out.fails))
    return 1 if out.fails else 0
