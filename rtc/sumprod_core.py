"""Core of the bounded driver drv_sumprod (C08-C11): semirings, the naive named-table oracle, case builders
and the per-case contract evaluation.

This file depends on numpy and funsor only (NOT on the rest of /verif), because the text of this file is the
body of every replay script: ``replay_src = <this file> + "CASE = ...; sys.exit(replay_main(CASE))"``.

ORACLE (independent of funsor): a *named table* NT = (names, ndarray) with one axis per name.  The three
operations are broadcasting product, axis reduction with the numpy ufunc of the semiring's sum, and renaming.
No funsor object ever enters these functions; data are drawn with numpy and handed both to funsor (wrapped in
``Tensor``) and to the oracle (as NT).
"""
import itertools
import math
import os
import sys
import traceback
from collections import OrderedDict

import numpy as np

if os.environ.get("VERIF_REPO", "/repo") not in sys.path:
    sys.path.insert(0, os.environ.get("VERIF_REPO", "/repo"))

import funsor  # noqa: E402
import funsor.ops as ops  # noqa: E402
from funsor.domains import Bint, Real  # noqa: E402
from funsor.interpretations import eager, lazy, normalize, reflect  # noqa: E402
from funsor.interpreter import reinterpret  # noqa: E402
from funsor.tensor import Tensor  # noqa: E402
from funsor.terms import Cat, Funsor, Number, Slice, Stack, Variable  # noqa: E402

funsor.set_backend("numpy")

RTOL = 1e-6
ATOL = 1e-8


def close(a, b, rtol=RTOL, atol=ATOL):
    """Tolerance of the contracts (fixed; never tuned to silence a report).
    inf/-inf/nan are compared structurally."""
    a = np.asarray(a)
    b = np.asarray(b)
    if a.shape != b.shape:
        try:
            a, b = np.broadcast_arrays(a, b)
        except ValueError:
            return False
    if a.dtype == object or b.dtype == object:
        return bool(np.all(a == b))
    if a.dtype.kind in "biu" and b.dtype.kind in "biu":
        return bool(np.array_equal(a, b))
    a = a.astype(float)
    b = b.astype(float)
    fin = np.isfinite(a) & np.isfinite(b)
    if not np.array_equal(np.isnan(a), np.isnan(b)):
        return False
    nonfin = ~fin & ~np.isnan(a)
    if not np.array_equal(a[nonfin], b[nonfin]):
        return False
    return bool(np.all(np.abs(a[fin] - b[fin]) <= atol + rtol * np.maximum(np.abs(a[fin]), np.abs(b[fin]))))


# ==== SECTION: COMMON ====  semirings


class Semiring:
    def __init__(self, name, sum_op, prod_op, np_sum, np_prod, zero, one, carrier):
        self.name = name
        self.sum_op = sum_op
        self.prod_op = prod_op
        self.np_sum = np_sum  # numpy binary ufunc with .reduce
        self.np_prod = np_prod
        self.zero = zero
        self.one = one
        self.carrier = carrier  # "real" | "nonneg" | "bool"

    def gen(self, rs, shape):
        """well-conditioned data on the carrier of the semiring"""
        shape = tuple(shape)
        if self.carrier == "bool":
            return np.asarray(rs.rand(*shape) < 0.6)
        if self.carrier == "nonneg":
            return np.asarray(0.3 + 1.5 * rs.rand(*shape))
        if self.name == "add_mul":
            return np.asarray((0.4 + 1.1 * rs.rand(*shape)) * np.where(rs.rand(*shape) < 0.3, -1.0, 1.0))
        arr = np.asarray(rs.randn(*shape))
        if self.name == "logaddexp_add" and shape and shape[0] >= 2 and rs.rand() < 0.2:
            # an impossible event: a whole slice at the semiring zero (log 0 = -inf), as in a transition matrix with a
            # forbidden state; exact arithmetic on the extended reals is part of the semiring
            arr = arr.copy()
            ax = int(rs.randint(len(shape)))
            idx = [slice(None)] * len(shape)
            idx[ax] = int(rs.randint(shape[ax]))
            arr[tuple(idx)] = -math.inf
        return arr

    def power(self, arr, k):
        """k-fold semiring product of arr with itself (k integer >= 0)"""
        out = np.full(np.shape(arr), self.one, dtype=np.asarray(arr).dtype)
        for _ in range(int(k)):
            out = self.np_prod(out, arr)
        return out

    @property
    def dtype(self):
        return 2 if self.carrier == "bool" else "real"


SEMIRINGS = OrderedDict(
    (s.name, s)
    for s in [
        Semiring("add_mul", ops.add, ops.mul, np.add, np.multiply, 0.0, 1.0, "real"),
        Semiring("logaddexp_add", ops.logaddexp, ops.add, np.logaddexp, np.add, -math.inf, 0.0, "real"),
        Semiring("max_add", ops.max, ops.add, np.maximum, np.add, -math.inf, 0.0, "real"),
        Semiring("min_add", ops.min, ops.add, np.minimum, np.add, math.inf, 0.0, "real"),
        Semiring("max_mul", ops.max, ops.mul, np.maximum, np.multiply, 0.0, 1.0, "nonneg"),
        Semiring("min_mul", ops.min, ops.mul, np.minimum, np.multiply, math.inf, 1.0, "nonneg"),
        Semiring("or_and", ops.or_, ops.and_, np.logical_or, np.logical_and, False, True, "bool"),
    ]
)
FIVE = ["add_mul", "logaddexp_add", "max_add", "min_add", "max_mul"]


# =====================================================================================================
# named tables (the oracle's only data structure)
# =====================================================================================================


def nt_view(nt, names_out):
    """array of nt with axes ordered/inserted as names_out (size-1 axes for absent names)"""
    names, arr = nt
    arr = np.asarray(arr)
    assert arr.ndim == len(names), (names, arr.shape)
    assert set(names) <= set(names_out), (names, names_out)
    present = [n for n in names_out if n in names]
    arr = np.transpose(arr, [names.index(n) for n in present])
    shape = []
    k = 0
    for n in names_out:
        if n in names:
            shape.append(arr.shape[k])
            k += 1
        else:
            shape.append(1)
    return arr.reshape(shape)


def nt_expand(nt, names_out, sizes):
    """full table over names_out"""
    return np.broadcast_to(nt_view(nt, tuple(names_out)), tuple(sizes[n] for n in names_out))


def nt_mul(sr, a, b):
    names = tuple(a[0]) + tuple(n for n in b[0] if n not in a[0])
    return (names, sr.np_prod(nt_view(a, names), nt_view(b, names)))


def nt_add(sr, a, b):
    """pointwise semiring SUM of two tables"""
    names = tuple(a[0]) + tuple(n for n in b[0] if n not in a[0])
    return (names, sr.np_sum(nt_view(a, names), nt_view(b, names)))


def nt_reduce(sr, a, rvars, sizes=None):
    """semiring-sum out rvars.  A variable the table does not mention is first materialised (needs sizes)."""
    names, arr = a
    rvars = [v for v in dict.fromkeys(rvars)]
    missing = [v for v in rvars if v not in names]
    if missing:
        assert sizes is not None
        names2 = tuple(names) + tuple(missing)
        arr = nt_expand(a, names2, {**{n: s for n, s in zip(names, np.shape(arr))}, **{m: sizes[m] for m in missing}})
        names = names2
    axes = tuple(names.index(v) for v in rvars)
    if not axes:
        return (tuple(names), np.asarray(arr))
    out = sr.np_sum.reduce(np.asarray(arr), axis=axes)
    return (tuple(n for n in names if n not in rvars), np.asarray(out))


def nt_prod_reduce(sr, a, rvars):
    """semiring-PRODUCT out rvars (plates)"""
    names, arr = a
    axes = tuple(names.index(v) for v in rvars)
    if not axes:
        return a
    out = sr.np_prod.reduce(np.asarray(arr), axis=axes)
    return (tuple(n for n in names if n not in rvars), np.asarray(out))


def nt_rename(a, m):
    return (tuple(m.get(n, n) for n in a[0]), a[1])


def nt_index(a, name, i):
    names, arr = a
    if name not in names:
        return a
    ax = names.index(name)
    return (tuple(n for n in names if n != name), np.take(arr, i, axis=ax))


def nt_unit(sr):
    return ((), np.asarray(sr.one))


def nt_joint(sr, factors):
    acc = nt_unit(sr)
    for f in factors:
        acc = nt_mul(sr, acc, f)
    return acc


def nt_pointwise_loop(sr, factors, keep, elim, sizes):
    """The dumbest possible evaluation (explicit python loops over every point of the joint space); used by the
    self-test to validate the broadcasting oracle, and by small cases directly."""
    keep = tuple(keep)
    elim = tuple(elim)
    out = np.empty(tuple(sizes[k] for k in keep), dtype=bool if sr.carrier == "bool" else float)
    for kp in itertools.product(*(range(sizes[k]) for k in keep)):
        env = dict(zip(keep, kp))
        acc = None
        for ep in itertools.product(*(range(sizes[e]) for e in elim)):
            env.update(zip(elim, ep))
            val = sr.one
            for names, arr in factors:
                val = sr.np_prod(val, np.asarray(arr)[tuple(env[n] for n in names)])
            acc = val if acc is None else sr.np_sum(acc, val)
        out[kp] = acc
    return (keep, out)


# =====================================================================================================
# observing funsor results
# =====================================================================================================


class NotGround(Exception):
    pass


def to_nt(f):
    if isinstance(f, Number):
        return ((), np.asarray(f.data))
    if isinstance(f, Tensor):
        if f.output.shape != ():
            raise NotGround("non-scalar output %s" % (f.output,))
        return (tuple(f.inputs), np.asarray(f.data))
    raise NotGround(type(f).__name__)


def eval_at(f, point):
    sub = {k: v for k, v in point.items() if k in f.inputs}
    if sub:
        f = f(**sub)
    return to_nt(f)


def mk_tensor(names, arr, sizes, dtype="real"):
    return Tensor(np.asarray(arr), OrderedDict((n, Bint[sizes[n]]) for n in names), dtype)


def compare(got_nt, want_nt, sizes):
    """-> None if equal, else a detail string.  inputs(got) must be among inputs(want)."""
    gn, ga = got_nt
    wn, wa = want_nt
    extra = [n for n in gn if n not in wn]
    if extra:
        return "result has inputs %s not among the naive result's inputs %s" % (extra, list(wn))
    for n, s in zip(gn, np.shape(ga)):
        if sizes.get(n, s) != s:
            return "input %s has size %s, expected %s" % (n, s, sizes[n])
    g = nt_expand(got_nt, wn, sizes)
    w = nt_expand(want_nt, wn, sizes)
    if not close(g, w):
        return "value mismatch over %s:\n got  %s\n want %s" % (list(wn), np.array2string(np.asarray(g), precision=8).replace("\n", " "), np.array2string(np.asarray(w), precision=8).replace("\n", " "))
    return None


class Out:
    """what evaluating one case produced"""

    def __init__(self):
        self.evals = []  # (contract, key, nontrivial)
        self.declined = []  # (contract, reason)
        self.fails = []  # (contract, detail, tags)

    def ok(self, contract, key, nontrivial=True):
        self.evals.append((contract, key, bool(nontrivial)))

    def decline(self, contract, reason):
        self.declined.append((contract, reason))

    def fail(self, contract, detail, tags):
        self.fails.append((contract, detail, tuple(tags)))


def exc_reason(e):
    tb = traceback.extract_tb(e.__traceback__)
    where = ""
    for fr in reversed(tb):
        if "/repo/funsor" in fr.filename:
            where = "%s:%s" % (fr.filename.split("/repo/")[-1], fr.name)
            break
    return "%s@%s" % (type(e).__name__, where)


def observe(out, contract, key, nontrivial, thunk, want_at, sizes, points, tags):
    """Run the real code (thunk -> funsor), evaluate at each real sample point and compare with want_at(point)."""
    try:
        res = thunk()
    except Exception as e:  # the properties allow declining by raising
        out.decline(contract, exc_reason(e))
        return None
    try:
        nts = [eval_at(res, pt) for pt in points]
    except NotGround as e:
        out.decline(contract, "stays-lazy:%s" % e)
        return res
    except Exception as e:
        out.decline(contract, "subs:" + exc_reason(e))
        return res
    out.ok(contract, key, nontrivial)
    for pt, nt in zip(points, nts):
        d = compare(nt, want_at(pt), sizes)
        if d is not None:
            out.fail(contract, ("at %s: " % (pt,) if pt else "") + d, tags)
            break
    return res


# parameter operand: how a free real parameter "w" enters an operand, on funsor side and on oracle side
PARAM_POINTS = [{"w": 0.7}, {"w": 1.9}]


def param_ops(sr, kind):
    """-> (funsor binary op, numpy binary op) combining a tensor operand with the parameter"""
    if kind == "prod":
        return sr.prod_op, sr.np_prod
    if kind == "other":
        if sr.prod_op is ops.mul:
            return ops.add, np.add
        if sr.prod_op is ops.add:
            return ops.mul, np.multiply
    raise ValueError(kind)


# ==== SECTION: C10 ====  Markov products


def markov_setup(case):
    sr = SEMIRINGS[case["sr"]]
    rs = np.random.RandomState(case["seed"])
    T = case["duration"]
    sizes = {"time": T}
    step = {}
    for i, n in enumerate(case["pairs"]):
        sizes["p%d" % i] = n
        sizes["c%d" % i] = n
        step["p%d" % i] = "c%d" % i
    for i, n in enumerate(case["batch"]):
        sizes["b%d" % i] = n
    names = ["b%d" % i for i in range(len(case["batch"]))]
    if case["time_dep"]:
        names.append("time")
    names += list(step.keys()) + list(step.values())
    if case.get("lacks"):
        names.remove(case["lacks"])
    names = [names[i] for i in rs.permutation(len(names))]
    data = sr.gen(rs, [sizes[n] for n in names])
    return sr, T, sizes, step, tuple(names), data


def markov_oracle(sr, T, sizes, step, names, data):
    """explicit left-to-right fold over time with the intermediate state summed out"""
    drop = {c: "_mid_%s" % c for c in step.values()}
    p2drop = {p: drop[c] for p, c in step.items()}
    acc = nt_index((names, data), "time", 0)
    for t in range(1, T):
        f = nt_index((names, data), "time", t)
        acc = nt_reduce(sr, nt_mul(sr, nt_rename(acc, drop), nt_rename(f, p2drop)), list(drop.values()), {d: sizes[c] for c, d in drop.items()})
    # oracle self-check on short chains: the fully unrolled joint table with explicit python loops
    full = all(n in names for n in list(step) + list(step.values()))
    if 2 <= T <= 3 and full and math.prod(int(sizes[c]) for c in step.values()) ** (T + 1) * math.prod(int(sizes[n]) for n in names if n[0] == "b") <= 256:
        facs = []
        usz = {}
        for t in range(T):
            ren = {}
            for p, c in step.items():
                ren[p] = "%s@%d" % (c, t)
                ren[c] = "%s@%d" % (c, t + 1)
            facs.append(nt_rename(nt_index((names, data), "time", t), ren))
        for f in facs:
            usz.update(zip(f[0], np.shape(f[1])))
        mids = [n for n in usz if "@" in n and 0 < int(n.split("@")[1]) < T]
        keep = tuple(n for n in usz if n not in mids)
        loop = nt_pointwise_loop(sr, facs, keep, mids, usz)
        back = {}
        for p, c in step.items():
            back["%s@0" % c] = p
            back["%s@%d" % (c, T)] = c
        loop = nt_rename(loop, back)
        asz = {n: sizes[n] for n in loop[0]}
        assert compare(loop, acc, asz) is None and compare(acc, loop, asz) is None, "markov oracle self-check"
    return acc


def check_markov(case, out):
    sr, T, sizes, step, names, data = markov_setup(case)
    param = case.get("param")
    tags0 = [sr.name] + (["time-independent"] if not case["time_dep"] else []) + (["lacks-" + case["lacks"][0]] if case.get("lacks") else []) + (["param-" + param] if param else [])
    time = Variable("time", Bint[T])
    base = mk_tensor(names, data, sizes, sr.dtype)
    if param:
        fop, nop = param_ops(sr, param)
        trans = fop(base, Variable("w", Real))
        points = PARAM_POINTS
        want_cache = {}

        def want_at(pt):
            k = pt["w"]
            if k not in want_cache:
                want_cache[k] = markov_oracle(sr, T, sizes, step, names, nop(data, k))
            return want_cache[k]

    else:
        trans = base
        points = [{}]
        want = markov_oracle(sr, T, sizes, step, names, data)

        def want_at(pt):
            return want

    nontrivial = T >= 2 and max(case["pairs"]) >= 2
    key = tuple(sorted((k, str(v)) for k, v in case.items()))
    S = funsor.sum_product

    def run(name, thunk, extra_tags=(), want_fn=want_at):
        observe(out, "C10." + name.split("[")[0], (key, name), nontrivial, thunk, want_fn, sizes, points, tags0 + [name.split("[")[0]] + list(extra_tags))

    run("sequential_sum_product", lambda: S.sequential_sum_product(sr.sum_op, sr.prod_op, trans, time, dict(step)))
    run("naive_sequential_sum_product", lambda: S.naive_sequential_sum_product(sr.sum_op, sr.prod_op, trans, time, dict(step)))
    for ns in range(1, T + 1):
        run("mixed_sequential_sum_product[%d]" % ns, lambda: S.mixed_sequential_sum_product(sr.sum_op, sr.prod_op, trans, time, dict(step), num_segments=ns), ["segments-%s" % ("1" if ns == 1 else "T" if ns == T else "divides" if T % ns == 0 else "remainder")])
    run("mixed_sequential_sum_product[None]", lambda: S.mixed_sequential_sum_product(sr.sum_op, sr.prod_op, trans, time, dict(step)))
    run("MarkovProduct.eager", lambda: S.MarkovProduct(sr.sum_op, sr.prod_op, trans, time, dict(step)))

    def lazy_mp():
        with lazy:
            mp = S.MarkovProduct(sr.sum_op, sr.prod_op, trans, time, dict(step))
        assert isinstance(mp, S.MarkovProduct)
        return reinterpret(mp)

    run("MarkovProduct.lazy", lazy_mp)

    ren = {"c0": "zz"}
    sizes["zz"] = sizes["c0"]

    def lazy_mp_rename():
        with lazy:
            mp = S.MarkovProduct(sr.sum_op, sr.prod_op, trans, time, dict(step))
            mp = mp(c0="zz")
        return reinterpret(mp)

    def eager_mp_rename():
        with lazy:
            mp = S.MarkovProduct(sr.sum_op, sr.prod_op, trans, time, dict(step))
        return reinterpret(mp(c0="zz"))

    run("MarkovProduct.lazy_rename", lazy_mp_rename, want_fn=lambda pt: nt_rename(want_at(pt), ren))
    run("MarkovProduct.rename_of_lazy", eager_mp_rename, want_fn=lambda pt: nt_rename(want_at(pt), ren))


# ---- time-lagged models ---------------------------------------------------------------------------------


def sb_setup(case):
    sr = SEMIRINGS[case["sr"]]
    rs = np.random.RandomState(case["seed"])
    T = case["duration"]
    sizes = {"time": T}
    names = ["time"]
    for i, n in enumerate(case["globals"]):
        sizes["g%d" % i] = n
        names.append("g%d" % i)
    for v, (n, lags) in zip("abc", case["vars"]):
        for k in [0] + list(lags):
            sizes["_PREV_" * k + v] = n
            names.append("_PREV_" * k + v)
    names = [names[i] for i in rs.permutation(len(names))]
    data = sr.gen(rs, [sizes[n] for n in names])
    return sr, T, sizes, tuple(names), data


def sb_oracle(sr, T, sizes, names, data, case):
    """unroll: variable v at absolute time s is 'v@s'; factor t mentions v@(t-k) for every lag k of v (and k=0).
    Eliminate v@s for 0 <= s <= T-2 by a left-to-right fold over t, summing a copy out as soon as no later factor
    mentions it.  Output: v@(T-1) is called v, v@(-j) is called _PREV_^j v."""
    vars_ = {v: (n, list(lags)) for v, (n, lags) in zip("abc", case["vars"])}
    if not any(lags for _, lags in vars_.values()):
        # not a time-lagged model (precondition of the fold contract fails): both functions are documented to
        # degenerate to the plain semiring product over time with every input shared -- check exactly that.
        acc = nt_index((names, data), "time", 0)
        for t in range(1, T):
            acc = nt_mul(sr, acc, nt_index((names, data), "time", t))
        return acc, dict(sizes)
    usizes = {}
    factors = []
    for t in range(T):
        ren = {}
        for v, (n, lags) in vars_.items():
            for k in [0] + lags:
                ren["_PREV_" * k + v] = "%s@%d" % (v, t - k)
                usizes["%s@%d" % (v, t - k)] = n
        factors.append(nt_rename(nt_index((names, data), "time", t), ren))
    acc = nt_unit(sr)
    for t, f in enumerate(factors):
        acc = nt_mul(sr, acc, f)
        later = set()
        for g in factors[t + 1 :]:
            later |= set(g[0])
        dead = [n for n in acc[0] if "@" in n and 0 <= int(n.split("@")[1]) <= T - 2 and n not in later]
        acc = nt_reduce(sr, acc, dead)
    ren = {}
    for n in acc[0]:
        if "@" in n:
            v, s = n.split("@")
            s = int(s)
            assert s == T - 1 or s < 0
            ren[n] = v if s == T - 1 else "_PREV_" * (-s) + v
    outsizes = dict(sizes)
    for n, m in ren.items():
        outsizes[m] = usizes[n]
    return nt_rename(acc, ren), outsizes


def check_sb(case, out):
    sr, T, sizes, names, data = sb_setup(case)
    S = funsor.sum_product
    want, osizes = sb_oracle(sr, T, sizes, names, data, case)
    trans = mk_tensor(names, data, sizes, sr.dtype)
    time = Variable("time", Bint[T])
    gv = frozenset("g%d" % i for i in range(len(case["globals"])))
    lagsets = [tuple(l) for _, l in case["vars"]]
    period = 1
    for ls in lagsets:
        for k in ls:
            period = period * k // math.gcd(period, k)
    tags0 = [sr.name, "lags-" + "/".join("".join(map(str, l)) or "0" for l in lagsets), "T%%period=%d" % (T % period) if T % period else "T-multiple-of-period"]
    nontrivial = T >= 2 and any(l for l in lagsets)
    key = tuple(sorted((k, str(v)) for k, v in case.items()))
    naive = observe(out, "C10.naive_sarkka_bilmes_product", (key, "naive"), nontrivial, lambda: S.naive_sarkka_bilmes_product(sr.sum_op, sr.prod_op, trans, time, gv), lambda pt: want, osizes, [{}], tags0 + ["naive_sarkka_bilmes_product"])
    for npd in case["num_periods"]:
        res = observe(out, "C10.sarkka_bilmes_product", (key, "sb", npd), nontrivial, lambda: S.sarkka_bilmes_product(sr.sum_op, sr.prod_op, trans, time, gv, num_periods=npd), lambda pt: want, osizes, [{}], tags0 + ["sarkka_bilmes_product", "num_periods-%d" % npd])
        if res is not None and naive is not None:
            try:
                a, b = to_nt(res), to_nt(naive)
            except NotGround:
                continue
            out.ok("C10.sarkka_bilmes_vs_naive", (key, "sbvn", npd), nontrivial)
            d = compare(a, b, osizes) or compare(b, a, osizes)
            if d is not None:
                out.fail("C10.sarkka_bilmes_vs_naive", d, tags0 + ["sarkka_bilmes_vs_naive", "num_periods-%d" % npd])


# ==== SECTION: C08 ====  normal forms, unfold, optimizer, einsum

EINSUM_BACKENDS = {"add_mul": "numpy", "logaddexp_add": "funsor.einsum.numpy_log", "max_add": "funsor.einsum.numpy_map"}


def expr_setup(case):
    """operands (funsor + oracle side) of an expression case"""
    sr = SEMIRINGS[case["sr"]]
    rs = np.random.RandomState(case["seed"])
    sizes = dict(case["sizes"])
    leaves = []
    for spec in case["leaves"]:
        names = tuple(spec["vars"])
        names = tuple(names[i] for i in rs.permutation(len(names)))
        data = sr.gen(rs, [sizes[n] for n in names])
        if spec.get("param") == "var":
            names = ()  # the operand is the bare parameter: it mentions no discrete variable
        leaves.append((names, data, spec.get("param")))
    return sr, sizes, leaves


def expr_oracle(sr, sizes, leaves, expr, w):
    """naive structural evaluation with named tables"""
    k = expr[0]
    if k == "leaf":
        names, data, param = leaves[expr[1]]
        if param == "var":
            return ((), np.asarray(w))
        if param:
            data = param_ops(sr, param)[1](data, w)
        return (names, data)
    if k == "prod":
        acc = expr_oracle(sr, sizes, leaves, expr[1][0], w)
        for e in expr[1][1:]:
            acc = nt_mul(sr, acc, expr_oracle(sr, sizes, leaves, e, w))
        return acc
    if k == "mul":
        return nt_mul(sr, expr_oracle(sr, sizes, leaves, expr[1], w), expr_oracle(sr, sizes, leaves, expr[2], w))
    if k == "add":
        return nt_add(sr, expr_oracle(sr, sizes, leaves, expr[1], w), expr_oracle(sr, sizes, leaves, expr[2], w))
    if k == "red":
        return nt_reduce(sr, expr_oracle(sr, sizes, leaves, expr[1], w), list(expr[2]), sizes)
    if k == "ren":
        return nt_rename(expr_oracle(sr, sizes, leaves, expr[1], w), dict(expr[2]))
    if k == "idx":
        return nt_index(expr_oracle(sr, sizes, leaves, expr[1], w), expr[2], expr[3])
    raise ValueError(k)


def expr_build(sr, sizes, fleaves, expr):
    """the same expression with funsor's python operators, under whatever interpretation is active"""
    k = expr[0]
    if k == "leaf":
        return fleaves[expr[1]]
    if k == "prod":
        acc = expr_build(sr, sizes, fleaves, expr[1][0])
        for e in expr[1][1:]:
            acc = sr.prod_op(acc, expr_build(sr, sizes, fleaves, e))
        return acc
    if k == "mul":
        return sr.prod_op(expr_build(sr, sizes, fleaves, expr[1]), expr_build(sr, sizes, fleaves, expr[2]))
    if k == "add":
        return sr.sum_op(expr_build(sr, sizes, fleaves, expr[1]), expr_build(sr, sizes, fleaves, expr[2]))
    if k == "red":
        rv = frozenset(Variable(v, Bint[sizes[v]]) for v in expr[2])
        return expr_build(sr, sizes, fleaves, expr[1]).reduce(sr.sum_op, rv)
    if k == "ren":
        return expr_build(sr, sizes, fleaves, expr[1])(**dict(expr[2]))
    if k == "idx":
        return expr_build(sr, sizes, fleaves, expr[1])(**{expr[2]: expr[3]})
    raise ValueError(k)


def expr_tags(expr, acc=None):
    acc = set() if acc is None else acc
    k = expr[0]
    if k != "leaf":
        acc.add(k)
    if k == "prod":
        for e in expr[1]:
            expr_tags(e, acc)
    elif k in ("mul", "add"):
        expr_tags(expr[1], acc)
        expr_tags(expr[2], acc)
    elif k in ("red", "ren", "idx"):
        expr_tags(expr[1], acc)
    return acc


def expr_free(leaves, expr):
    """free names of the naive term (syntactic)"""
    k = expr[0]
    if k == "leaf":
        return set(leaves[expr[1]][0])
    if k == "prod":
        return set().union(*(expr_free(leaves, e) for e in expr[1]))
    if k in ("mul", "add"):
        return expr_free(leaves, expr[1]) | expr_free(leaves, expr[2])
    if k == "red":
        return expr_free(leaves, expr[1]) - set(expr[2])
    if k == "ren":
        m = dict(expr[2])
        return {m.get(n, n) for n in expr_free(leaves, expr[1])}
    if k == "idx":
        return expr_free(leaves, expr[1]) - {expr[2]}


PARAM_OTHER_IS_SUM = [False]  # set per case: is the "other" parameter op the semiring's own sum (add_mul: tensor + w)


def monomials(leaves, expr):
    """expr as a formal sum of products: list of variable sets, one per summand after full distribution
    (inner reductions are looked through: their summands minus the bound variables)"""
    k = expr[0]
    if k == "leaf":
        names, _, param = leaves[expr[1]]
        if param == "other" and PARAM_OTHER_IS_SUM[0]:
            return [frozenset(names), frozenset()]  # tensor (+) w : the summand w mentions no variable
        return [frozenset(names)]
    if k in ("prod", "mul"):
        parts = expr[1] if k == "prod" else (expr[1], expr[2])
        acc = [frozenset()]
        for e in parts:
            acc = [m | n for m in acc for n in monomials(leaves, e)]
        return acc
    if k == "add":
        return monomials(leaves, expr[1]) + monomials(leaves, expr[2])
    if k == "red":
        return [mono - set(expr[2]) for mono in monomials(leaves, expr[1])]  # normalisation fuses nested reductions
    if k == "ren":
        m = dict(expr[2])
        return [frozenset(m.get(n, n) for n in mono) for mono in monomials(leaves, expr[1])]
    if k == "idx":
        return [mono - {expr[2]} for mono in monomials(leaves, expr[1])]


def reduction_tags(leaves, expr, acc=None):
    """'unrelated-var': some reduction ranges over a variable that a whole summand of its operand does not mention
    (so a multiplicity |var| is owed);  'operand-lacks-reduced-var': only single factors lack it (plain sum-product)"""
    acc = set() if acc is None else acc
    k = expr[0]
    if k == "leaf":
        return acc
    if k == "prod":
        for e in expr[1]:
            reduction_tags(leaves, e, acc)
        return acc
    if k in ("mul", "add"):
        reduction_tags(leaves, expr[1], acc)
        reduction_tags(leaves, expr[2], acc)
        return acc
    if k == "red":
        rv = set(expr[2])
        if any(not rv <= mono for mono in monomials(leaves, expr[1])):
            acc.add("unrelated-var")

        def leafsets(e):
            if e[0] == "leaf":
                return [set(leaves[e[1]][0])]
            if e[0] == "prod":
                return [x for f in e[1] for x in leafsets(f)]
            if e[0] in ("mul", "add"):
                return leafsets(e[1]) + leafsets(e[2])
            return [expr_free(leaves, e)]

        if any(not rv <= ls for ls in leafsets(expr[1])):
            acc.add("operand-lacks-reduced-var")
    reduction_tags(leaves, expr[1], acc)
    return acc


def check_expr(case, out):
    from funsor.optimizer import apply_optimizer, unfold

    sr, sizes, leaves = expr_setup(case)
    expr = case["expr"]
    PARAM_OTHER_IS_SUM[0] = sr.name == "add_mul"
    anyparam = any(p for _, _, p in leaves)
    points = PARAM_POINTS if anyparam else [{}]
    wv = Variable("w", Real)
    fleaves = []
    for names, data, param in leaves:
        t = mk_tensor(names, data, sizes, sr.dtype)
        if param == "var":
            t = wv
        elif param:
            t = param_ops(sr, param)[0](t, wv)
        fleaves.append(t)
    cache = {}

    def want_at(pt):
        w = pt.get("w")
        if w not in cache:
            cache[w] = expr_oracle(sr, sizes, leaves, expr, w)
        return cache[w]

    et = expr_tags(expr)
    tags0 = [sr.name, case.get("family", "expr").split(":")[0]] + sorted(reduction_tags(leaves, expr)) + sorted({"param-" + p for _, _, p in leaves if p}) + (["sum-node"] if "add" in et else []) + (["subs"] if et & {"ren", "idx"} else [])
    key = (case["sr"], repr(expr), repr(case["leaves"]), repr(sorted(sizes.items())), case["seed"])
    nontrivial = any(sizes[v] >= 2 for names, _, _ in leaves for v in names) and len(leaves) >= 2

    def run(name, thunk):
        return observe(out, "C08." + name, (key, name), nontrivial, thunk, want_at, sizes, points, tags0 + [name])

    def build():
        return expr_build(sr, sizes, fleaves, expr)

    run("eager", build)

    def via(interp):
        with interp:
            return build()

    light = case.get("light", False)  # quick tier: the reflect-built variants of the routes are left to the thorough tier
    if not light:
        run("reflect_then_eager", lambda: reinterpret(via(reflect)))
    run("lazy_then_eager", lambda: reinterpret(via(lazy)))
    run("normalize_then_eager", lambda: reinterpret(via(normalize)))
    run("lazy_then_optimizer", lambda: apply_optimizer(via(lazy)))
    if not light:
        run("reflect_then_optimizer", lambda: apply_optimizer(via(reflect)))
    run("normalize_then_optimizer", lambda: apply_optimizer(via(normalize)))

    def unfolded(interp):
        t = via(interp)
        with unfold:
            u = reinterpret(t)
        return reinterpret(u)

    run("lazy_unfold_then_eager", lambda: unfolded(lazy))
    if not light:
        run("reflect_unfold_then_eager", lambda: unfolded(reflect))

    # idempotence of normalize: normalising a normalised term returns the identical object
    try:
        t = via(normalize)
        with normalize:
            t2 = reinterpret(t)
    except Exception as e:
        out.decline("C08.normalize_idempotent", exc_reason(e))
    else:
        out.ok("C08.normalize_idempotent", (key, "idem"), nontrivial)
        if t2 is not t:
            out.fail("C08.normalize_idempotent", "normalize(normalized term) is not the same object:\n first  %s\n second %s" % (t, t2), tags0 + ["normalize_idempotent"])

    # einsum front ends (flat expressions whose reduced variables all occur in some operand)
    if case.get("family") == "flat" and sr.name in EINSUM_BACKENDS and not anyparam:
        import funsor.einsum as E

        assert expr[0] == "prod" or (expr[0] == "red" and expr[1][0] == "prod")
        ops_ = expr[1][1] if expr[0] == "red" else expr[1]
        red = set(expr[2]) if expr[0] == "red" else set()
        idxs = [e[1] for e in ops_]
        allv = set().union(*(set(leaves[i][0]) for i in idxs)) if idxs else set()
        if red <= allv and all(e[0] == "leaf" for e in ops_):
            outv = "".join(sorted(allv - red))
            outv = "".join(outv[i] for i in np.random.RandomState(case["seed"] + 5).permutation(len(outv)))
            eqn = ",".join("".join(leaves[i][0]) for i in idxs) + "->" + outv
            b = EINSUM_BACKENDS[sr.name]
            fl = [fleaves[i] for i in idxs]
            run("einsum", lambda: E.einsum(eqn, *fl, backend=b))
            run("naive_einsum", lambda: E.naive_einsum(eqn, *fl, backend=b))
            run("naive_plated_einsum", lambda: E.naive_plated_einsum(eqn, *fl, backend=b, plates=""))


def check_einsum(case, out):
    """every front end / backend of funsor.einsum on one equation"""
    import opt_einsum

    import funsor.einsum as E
    import funsor.einsum.numpy_log as NL
    import funsor.einsum.numpy_map as NM

    sr = SEMIRINGS[case["sr"]]
    rs = np.random.RandomState(case["seed"])
    sizes = dict(case["sizes"])
    inputs = list(case["inputs"])
    output = case["output"]
    arrays = [sr.gen(rs, [sizes[c] for c in inp]) for inp in inputs]
    nts = [(tuple(inp), a) for inp, a in zip(inputs, arrays)]
    allv = sorted(set("".join(inputs)))
    joint = nt_joint(sr, nts)
    want = nt_reduce(sr, joint, [v for v in allv if v not in output])
    # the dumbest evaluation agrees with the broadcasting one (oracle self-check on small spaces)
    if math.prod(int(sizes[v]) for v in allv) <= 64:
        loop = nt_pointwise_loop(sr, nts, tuple(output), [v for v in allv if v not in output], sizes)
        assert compare(loop, want, sizes) is None and compare(want, loop, sizes) is None, "oracle self-check"
    eqn = ",".join(inputs) + "->" + output
    b = EINSUM_BACKENDS[sr.name]
    fl = [mk_tensor(tuple(inp), a, sizes) for inp, a in zip(inputs, arrays)]
    key = (case["sr"], eqn, repr(sorted(sizes.items())), case["seed"])
    nontrivial = len(allv) >= 1 and any(sizes[v] >= 2 for v in allv)
    tags0 = [sr.name, "einsum-eqn", "%d-operands" % len(inputs)] + (["scalar-operand"] if "" in inputs else []) + (["repeated-operand-sig"] if len(set(inputs)) < len(inputs) else [])

    def run(name, thunk):
        return observe(out, "C08." + name, (key, name), nontrivial, thunk, lambda pt: want, sizes, [{}], tags0 + [name])

    run("einsum", lambda: E.einsum(eqn, *fl, backend=b))
    run("naive_einsum", lambda: E.naive_einsum(eqn, *fl, backend=b))
    run("naive_plated_einsum", lambda: E.naive_plated_einsum(eqn, *fl, backend=b, plates=""))
    if sr.name == "add_mul":
        run("naive_contract_einsum", lambda: reinterpret(E.naive_contract_einsum(eqn, *fl, backend=b)))

    def reflect_opt():
        from funsor.optimizer import apply_optimizer

        with reflect:
            ast = E.naive_einsum(eqn, *fl, backend=b)
            opt = apply_optimizer(ast)
        return reinterpret(opt)

    run("einsum_reflect_optimizer", reflect_opt)

    # raw array backends: result axes must follow the output string
    def raw(name, fn):
        contract = "C08." + name
        try:
            r = np.asarray(fn())
        except Exception as e:
            out.decline(contract, exc_reason(e))
            return
        out.ok(contract, (key, name), nontrivial)
        if r.ndim != len(output):
            out.fail(contract, "result of rank %d for output %r" % (r.ndim, output), tags0 + [name, "rank"])
            return
        d = compare((tuple(output), r), want, sizes)
        if d is not None:
            out.fail(contract, d, tags0 + [name])

    if sr.name == "logaddexp_add":
        raw("numpy_log.einsum", lambda: NL.einsum(eqn, *arrays))
    if sr.name == "max_add":
        raw("numpy_map.einsum", lambda: NM.einsum(eqn, *arrays))
    if sr.name != "add_mul":
        raw("opt_einsum.contract[%s]" % b.split(".")[-1], lambda: opt_einsum.contract(eqn, *arrays, backend=b))


# ==== SECTION: C09 ====  plated sum-product


def ve_eliminate(sr, factors, elim):
    """plain variable elimination on named tables (exact; order = smallest intermediate table first)"""
    factors = list(factors)
    elim = [e for e in dict.fromkeys(elim)]
    while elim:
        best = None
        for v in elim:
            touching = [f for f in factors if v in f[0]]
            size = 1
            seen = {}
            for f in touching:
                for n, k in zip(f[0], np.shape(f[1])):
                    seen[n] = k
            for n, k in seen.items():
                size *= k
            if best is None or size < best[0]:
                best = (size, v, touching)
        _, v, touching = best
        elim.remove(v)
        if not touching:
            continue
        rest = [f for f in factors if not any(f is t for t in touching)]
        prod = nt_joint(sr, touching)
        rest.append(nt_reduce(sr, prod, [v]))
        factors = rest
    return nt_joint(sr, factors)


def plated_lives(factors, plates):
    """variable -> set of plates it lives in (= plates common to all factors mentioning it)"""
    lives = {}
    for names, _ in factors:
        fp = {n for n in names if n in plates}
        for n in names:
            if n not in plates:
                lives[n] = fp if n not in lives else lives[n] & fp
    return lives


def plated_valid(factors, plates, elim):
    """no preserved variable lives in an eliminated plate"""
    lives = plated_lives(factors, plates)
    return all(not (lives[v] & set(elim)) for v in lives if v not in elim)


def plated_oracle(sr, factors, plates, elim, scales=None):
    """replicate every eliminated variable once per index of the eliminated plates it lives in, multiply all factor
    instances, sum out the copies (plate_to_scale[p]=k: the plate is k copies of itself)"""
    plates = set(plates)
    elim = set(elim)
    if scales:
        tiled = []
        for names, arr in factors:
            for p, k in scales.items():
                if p in names:
                    arr = np.concatenate([arr] * k, axis=names.index(p))
            tiled.append((names, arr))
        factors = tiled
    Ep = plates & elim
    lives = {v: sorted(ps & Ep) for v, ps in plated_lives(factors, plates).items()}
    instances = []
    copies = []
    for names, arr in factors:
        fp = [n for n in names if n in Ep]
        shape = dict(zip(names, np.shape(arr)))
        for idx in itertools.product(*(range(shape[p]) for p in fp)):
            at = dict(zip(fp, idx))
            inst = (names, arr)
            for p in fp:
                inst = nt_index(inst, p, at[p])
            ren = {}
            for v in inst[0]:
                if v in elim and v not in plates:
                    ren[v] = v + "@" + ",".join("%s%d" % (p, at[p]) for p in lives[v])
                    copies.append(ren[v])
            instances.append(nt_rename(inst, ren))
    result = ve_eliminate(sr, instances, copies)
    # oracle self-check on small unrolled models: explicit python loops over every point of the joint space
    allsz = {}
    for names, arr in instances:
        allsz.update(zip(names, np.shape(arr)))
    if instances and math.prod(int(v) for v in allsz.values()) <= 128:  # python ints: no overflow
        cp = list(dict.fromkeys(copies))
        keep = tuple(n for n in allsz if n not in cp)
        loop = nt_pointwise_loop(sr, instances, keep, cp, allsz)
        assert compare(loop, result, allsz) is None and compare(result, loop, allsz) is None, "plated oracle self-check"
    return result


def plated_split_ok(factors, plates, e1, e2):
    """(e1 then e2) computes the same unrolled quantity as (e1 | e2) at once, for every data:
    both stages are valid on their own, and a variable summed in stage 1 is not shared across the indices of a
    plate that is only product-reduced in stage 2 (it either lives in that plate or touches no factor inside it)"""
    plates = set(plates)
    if not plated_valid(factors, plates, e1):
        return False
    if not plated_valid(factors, plates, set(e1) | set(e2)):
        return False
    for x in e1:
        if x in plates:
            continue
        mine = [set(names) for names, _ in factors if x in names]
        for p in e2:
            if p in plates:
                has = [p in m for m in mine]
                if any(has) and not all(has):
                    return False
    return True


def check_plated(case, out):
    S = funsor.sum_product
    sr = SEMIRINGS[case["sr"]]
    rs = np.random.RandomState(case["seed"])
    sizes = dict(case["sizes"])
    plates = list(case["plates"])
    elim = list(case["eliminate"])
    specs = case["factors"]
    nts = []
    params = []
    for spec in specs:
        names = list(spec["plates"]) + list(spec["vars"])
        names = tuple(names[i] for i in rs.permutation(len(names)))
        nts.append((names, sr.gen(rs, [sizes[n] for n in names])))
        params.append(spec.get("param"))
    anyparam = any(params)
    points = PARAM_POINTS if anyparam else [{}]
    wv = Variable("w", Real)
    ffs = []
    for (names, data), param in zip(nts, params):
        t = mk_tensor(names, data, sizes, sr.dtype)
        if param:
            t = param_ops(sr, param)[0](t, wv)
        ffs.append(t)

    def nts_at(w):
        return [(names, param_ops(sr, param)[1](data, w) if param else data) for (names, data), param in zip(nts, params)]

    P = frozenset(plates)
    E = frozenset(elim)
    valid = plated_valid(nts, P, E)
    lives = plated_lives(nts, P)
    key = (case["sr"], repr(specs), repr(sorted(sizes.items())), repr(sorted(elim)), case["seed"])
    allnames = set().union(*(set(n) for n, _ in nts)) if nts else set()
    nontrivial = len(specs) >= 2 and any(sizes[p] >= 2 for p in P & E & allnames) and any(lives.get(v) for v in lives)
    nest = "no-plate" if not (P & E) else "plates-%d" % len(P & E)
    tags0 = [sr.name, nest] + (["kept-plate"] if (P - E) & allnames else []) + (["param-" + p for p in sorted(set(filter(None, params)))]) + (["scalar-factor"] if any(not n for n, _ in nts) else [])

    # ---- pedantic raises exactly when a preserved variable lives in an eliminated plate
    if not anyparam:
        try:
            r = S.sum_product(sr.sum_op, sr.prod_op, ffs, E, P, pedantic=True)
            raised = None
        except ValueError as e:
            raised = e
            r = None
        except Exception as e:
            raised = "other"
            out.decline("C09.pedantic", exc_reason(e))
        if raised != "other":
            out.ok("C09.pedantic", (key, "pedantic"), nontrivial)
            if valid and raised is not None and "preserved var" in str(raised):
                out.fail("C09.pedantic", "pedantic raised %r on a well-formed elimination" % (raised,), tags0 + ["pedantic", "spurious-raise"])
            if not valid and raised is None:
                out.fail("C09.pedantic", "pedantic did not raise although a preserved variable lives in an eliminated plate (%s)" % ({v: sorted(l & E) for v, l in lives.items() if v not in E and l & E},), tags0 + ["pedantic", "missing-raise"])
    if not valid:
        return

    cache = {}

    def want_at(pt, scales=None):
        k = (pt.get("w"), repr(scales))
        if k not in cache:
            cache[k] = plated_oracle(sr, nts_at(pt.get("w")), P, E, scales)
        return cache[k]

    def _prod(fs):
        acc = None
        for f in fs:
            acc = f if acc is None else sr.prod_op(acc, f)
        if acc is None:
            acc = Number(sr.one if sr.carrier != "bool" else True)
        return acc

    def run(name, thunk, extra=(), want=want_at):
        return observe_c09(out, "C09." + name.split("[")[0], (key, name), nontrivial, thunk, want, sizes, points, tags0 + [name.split("[")[0]] + list(extra))

    run("sum_product", lambda: S.sum_product(sr.sum_op, sr.prod_op, ffs, E, P))
    run("partial_sum_product", lambda: _prod(S.partial_sum_product(sr.sum_op, sr.prod_op, ffs, E, P)))
    p2s = {p: frozenset() for p in plates}
    run("modified_partial_sum_product", lambda: _prod(S.modified_partial_sum_product(sr.sum_op, sr.prod_op, ffs, E, dict(p2s))))
    run("dynamic_partial_sum_product", lambda: _prod(S.dynamic_partial_sum_product(sr.sum_op, sr.prod_op, ffs, E, dict(p2s))))

    # ---- two successive calls
    el = sorted(E)
    for mask in range(1, 2 ** len(el) - 1):
        e1 = frozenset(x for i, x in enumerate(el) if mask >> i & 1)
        e2 = E - e1
        if not plated_split_ok(nts, P, e1, e2):
            continue

        def two(e1=e1, e2=e2):
            mid = S.partial_sum_product(sr.sum_op, sr.prod_op, ffs, e1, P)
            return _prod(S.partial_sum_product(sr.sum_op, sr.prod_op, mid, e2, P))

        run("partial_sum_product_x2[%s|%s]" % ("".join(sorted(e1)), "".join(sorted(e2))), two, ["split", "first-" + ("plates" if e1 <= P else "vars" if not (e1 & P) else "mixed")])

    # ---- plated einsum front end
    if sr.name in EINSUM_BACKENDS_C09 and not anyparam:
        import funsor.einsum as E_

        outn = sorted(allnames - E)
        outn = "".join(outn[i] for i in np.random.RandomState(case["seed"] + 3).permutation(len(outn)))
        eqn = ",".join("".join(n) for n, _ in nts) + "->" + outn
        b = EINSUM_BACKENDS_C09[sr.name]
        if E == allnames - set(outn):
            run("einsum_plated", lambda: E_.einsum(eqn, *ffs, plates="".join(plates), backend=b))
            run("naive_plated_einsum", lambda: E_.naive_plated_einsum(eqn, *ffs, plates="".join(plates), backend=b))

    # ---- plate scales are exponents of the plate's product
    ep = sorted(P & E & allnames)
    if ep and sr.prod_op in ops.PRODUCT_TO_POWER:
        for scales in [{ep[0]: 2}] + ([{ep[0]: 3, ep[1]: 2}] if len(ep) > 1 else []):
            run("sum_product_scaled[%s]" % sorted(scales.items()), lambda: S.sum_product(sr.sum_op, sr.prod_op, ffs, E, P, plate_to_scale=dict(scales)), ["plate_to_scale"], want=lambda pt, scales=scales: want_at(pt, scales))


EINSUM_BACKENDS_C09 = {"add_mul": "numpy", "logaddexp_add": "funsor.einsum.numpy_log", "max_add": "funsor.einsum.numpy_map"}


def observe_c09(out, contract, key, nontrivial, thunk, want_at, sizes, points, tags):
    """like observe; ValueError / NotImplementedError = declined as the property allows, any other exception is
    reported under its own tag (the property promises a ValueError, not an arbitrary crash)"""
    try:
        res = thunk()
    except (ValueError, NotImplementedError) as e:
        out.decline(contract, exc_reason(e) + ":" + str(e)[:30])
        return None
    except Exception as e:
        out.decline(contract, "OTHER-EXCEPTION " + exc_reason(e))
        return None
    try:
        nts = [eval_at(res, pt) for pt in points]
    except NotGround as e:
        out.decline(contract, "stays-lazy:%s" % e)
        return res
    except Exception as e:
        out.decline(contract, "subs:" + exc_reason(e))
        return res
    out.ok(contract, key, nontrivial)
    for pt, nt in zip(points, nts):
        d = compare(nt, want_at(pt), sizes)
        if d is not None:
            out.fail(contract, ("at %s: " % (pt,) if pt else "") + d, tags)
            break
    return res


# ==== SECTION: C11 ====  adjoints
#
# An expression is a tree over *occurrences*; occurrence k is a view of one (or, for cat, several) leaf tensors:
#   ("id", leaf)                                  the leaf itself
#   ("ren", leaf, ((old, new), ...))              leaf(old=new)                       (renaming)
#   ("slice", leaf, t, new, start, step, m)       leaf(t=Slice(new, start, start+step*m.., step, n))  (strided slice)
#   ("take", leaf, t, new, (i0, i1, ...))         leaf(t=Tensor([i0,i1,..])[new])     (injective index tensor)
#   ("cat", (leaf1, leaf2, ...), t, new)          Cat(new, (leaf1, leaf2, ...), t)    (parts carry the private axis t)
# Tree nodes: ("occ", k) | ("mul", e, e) | ("add", e, e) | ("red", e, vars).


def adj_setup(case):
    sr = SEMIRINGS[case["sr"]]
    rs = np.random.RandomState(case["seed"])
    leaves = []
    for spec in case["leaves"]:
        names = tuple(n for n, _ in spec)
        shape = [k for _, k in spec]
        leaves.append((names, sr.gen(rs, shape)))
    return sr, leaves


def occ_table(sr, leaves, occ, probe=None):
    """named table of an occurrence.  probe = (leaf index, one-hot array, position): the occurrence reads the one-hot
    array instead of the leaf (for cat: only at part `position`, every other part reads the semiring zero, because
    Cat is a direct sum)"""

    def data(i, pos=None):
        names, arr = leaves[i]
        if probe is not None:
            li, onehot, ppos = probe
            if i == li and (ppos is None or ppos == pos):
                return names, onehot
            if ppos is not None:
                return names, np.full(np.shape(arr), sr.zero, dtype=float)
        return names, arr

    kind = occ[0]
    if kind == "id":
        return data(occ[1])
    if kind == "ren":
        return nt_rename(data(occ[1]), dict(occ[2]))
    if kind == "diag":
        _, i, (pa, qa), new = occ
        names, arr = data(i)
        d = np.diagonal(arr, axis1=names.index(pa), axis2=names.index(qa))  # the diagonal axis comes last
        return (tuple(n for n in names if n not in (pa, qa)) + (new,), d)
    if kind == "slice":
        _, i, t, new, start, step, m = occ
        names, arr = data(i)
        idx = [start + step * j for j in range(m)]
        return (tuple(new if n == t else n for n in names), np.take(arr, idx, axis=names.index(t)))
    if kind == "take":
        _, i, t, new, idx = occ
        names, arr = data(i)
        return (tuple(new if n == t else n for n in names), np.take(arr, list(idx), axis=names.index(t)))
    if kind == "cat":
        _, parts, t, new = occ
        tabs = [data(i, pos) for pos, i in enumerate(parts)]
        names = tabs[0][0]
        arrs = [nt_view(tb, names) for tb in tabs]
        return (tuple(new if n == t else n for n in names), np.concatenate(arrs, axis=names.index(t)))
    raise ValueError(kind)


def occ_funsor(fleaves, leaves, occ):
    kind = occ[0]
    if kind == "id":
        return fleaves[occ[1]]
    if kind == "ren":
        return fleaves[occ[1]](**dict(occ[2]))
    if kind == "diag":
        return fleaves[occ[1]](**{occ[2][0]: occ[3], occ[2][1]: occ[3]})
    if kind == "slice":
        _, i, t, new, start, step, m = occ
        n = dict(zip(leaves[i][0], np.shape(leaves[i][1])))[t]
        stop = start + step * (m - 1) + 1
        return fleaves[i](**{t: Slice(new, start, stop, step, n)})
    if kind == "take":
        _, i, t, new, idx = occ
        n = dict(zip(leaves[i][0], np.shape(leaves[i][1])))[t]
        return fleaves[i](**{t: Tensor(np.array(idx), OrderedDict([(new, Bint[len(idx)])]), n)})
    if kind == "cat":
        _, parts, t, new = occ
        return Cat(new, tuple(fleaves[i] for i in parts), t)
    raise ValueError(kind)


def expr_occs(expr):
    if expr[0] == "occ":
        return {expr[1]}
    if expr[0] in ("mul", "add"):
        return expr_occs(expr[1]) | expr_occs(expr[2])
    return expr_occs(expr[1])


def adj_eval(sr, leaves, occs, expr, probe=None):
    """naive evaluation.  probe = (k, leaf, one-hot, position): occurrence k reads the one-hot leaf and, the root being
    linear in each occurrence, every summand that does not contain occurrence k is dropped (derivative of a sum)"""
    kind = expr[0]
    if kind == "occ":
        k = expr[1]
        return occ_table(sr, leaves, occs[k], probe[1:] if probe is not None and probe[0] == k else None)
    if kind == "mul":
        return nt_mul(sr, adj_eval(sr, leaves, occs, expr[1], probe), adj_eval(sr, leaves, occs, expr[2], probe))
    if kind == "add":
        if probe is not None:
            inl = probe[0] in expr_occs(expr[1])
            inr = probe[0] in expr_occs(expr[2])
            assert not (inl and inr)
            if inl:
                return adj_eval(sr, leaves, occs, expr[1], probe)
            if inr:
                return adj_eval(sr, leaves, occs, expr[2], probe)
        return nt_add(sr, adj_eval(sr, leaves, occs, expr[1], probe), adj_eval(sr, leaves, occs, expr[2], probe))
    if kind == "red":
        inner = adj_eval(sr, leaves, occs, expr[1], probe)
        if probe is None:
            assert set(expr[2]) <= set(inner[0]), "C11 cases reduce only variables the operand mentions"
            return nt_reduce(sr, inner, list(expr[2]))
        # a dropped summand may have been the only one mentioning a reduced variable: the derivative of the kept
        # summand then carries the multiplicity of that variable
        gs = {}
        for o in occs:
            t = occ_table(sr, leaves, o)
            gs.update(zip(t[0], np.shape(t[1])))
        return nt_reduce(sr, inner, list(expr[2]), gs)
    raise ValueError(kind)


def adj_build(sr, fleaves, leaves, occs, expr):
    kind = expr[0]
    if kind == "occ":
        return occ_funsor(fleaves, leaves, occs[expr[1]])
    if kind == "mul":
        return sr.prod_op(adj_build(sr, fleaves, leaves, occs, expr[1]), adj_build(sr, fleaves, leaves, occs, expr[2]))
    if kind == "add":
        return sr.sum_op(adj_build(sr, fleaves, leaves, occs, expr[1]), adj_build(sr, fleaves, leaves, occs, expr[2]))
    if kind == "red":
        return adj_build(sr, fleaves, leaves, occs, expr[1]).reduce(sr.sum_op, frozenset(expr[2]))
    raise ValueError(kind)


def adj_oracle(sr, leaves, occs, expr, li, root_names, root_sizes):
    """semiring derivative of the root w.r.t. leaf li: for every index point i0 of the leaf and every occurrence k
    that reads the leaf, evaluate the root with that one occurrence reading the one-hot leaf e_{i0} (one at i0, zero
    elsewhere) and all other occurrences unchanged; semiring-sum over k.  = sum over the variables the leaf does not
    mention of the product of all other factor occurrences.  Axes: leaf inputs, then root inputs; a name that is both
    a leaf input and a root input denotes the diagonal (off-diagonal entries are checked to be zero)."""
    names, arr = leaves[li]
    shape = np.shape(arr)
    used = expr_occs(expr)
    users = []  # (occurrence, position inside a cat or None)
    for k, o in enumerate(occs):
        if k not in used:
            continue
        if o[0] == "cat":
            users += [(k, pos) for pos, i in enumerate(o[1]) if i == li]
        elif o[1] == li:
            users.append((k, None))
    if not users:
        return None  # the leaf does not occur
    root_shape = None
    full = None
    for i0 in itertools.product(*(range(k) for k in shape)):
        onehot = np.full(shape, sr.zero, dtype=float)
        onehot[i0] = sr.one
        acc = None
        for k, pos in users:
            r = adj_eval(sr, leaves, occs, expr, probe=(k, li, onehot, pos))
            # a dropped summand may have carried some root inputs: broadcast to the root's inputs
            assert set(r[0]) <= set(root_names)
            r = nt_expand(r, tuple(root_names), root_sizes)
            acc = r if acc is None else sr.np_sum(acc, r)
        if full is None:
            root_shape = np.shape(acc)
            full = np.empty(shape + root_shape, dtype=float)
        full[i0] = acc
    lnames = ["%s" % n for n in names]
    onames = list(root_names)
    # diagonal convention for names shared by the leaf and the root
    table = (tuple("L:" + n for n in lnames) + tuple(onames), full)
    for n in names:
        if n in onames:
            tn, ta = table
            ax_l = tn.index("L:" + n)
            ax_o = tn.index(n)
            diag = np.diagonal(ta, axis1=ax_l, axis2=ax_o)  # new last axis = the diagonal
            k = ta.shape[ax_l]
            off = np.moveaxis(ta, (ax_l, ax_o), (-2, -1))[..., ~np.eye(k, dtype=bool)]
            assert np.all(off == sr.zero), "one-hot probe off the diagonal must be the semiring zero"
            rest = tuple(x for x in tn if x not in ("L:" + n, n))
            table = (rest + ("D:" + n,), diag)
    final = tuple(x[2:] if x[:2] in ("L:", "D:") else x for x in table[0])
    assert len(set(final)) == len(final)
    return (final, table[1])


def term_contains(term, leaf):
    # reflect/lazy terms are alpha-mangled (bound inputs of a Tensor are renamed x -> x__BOUND_n, sharing the data
    # buffer); the tape un-mangles them.  The leaf is a factor of the term iff some Tensor node has the leaf's buffer
    # and the leaf's input names modulo the __BOUND suffix.
    seen = set()
    stack = [term]
    lnames = tuple(leaf.inputs)
    while stack:
        x = stack.pop()
        if x is leaf:
            return True
        if isinstance(x, Tensor) and x.data is leaf.data and tuple(n.split("__BOUND")[0] for n in x.inputs) == lnames:
            return True
        if isinstance(x, Funsor):
            if id(x) in seen:
                continue
            seen.add(id(x))
            stack.extend(x._ast_values)
        elif isinstance(x, (tuple, frozenset, list)):
            stack.extend(x)
        elif isinstance(x, dict):
            stack.extend(x.values())
    return False


def occ_names(leaves, o):
    if o[0] == "id":
        return set(leaves[o[1]][0])
    if o[0] == "ren":
        m = dict(o[2])
        return {m.get(n, n) for n in leaves[o[1]][0]}
    if o[0] == "diag":
        return {o[3] if n in o[2] else n for n in leaves[o[1]][0]}
    if o[0] in ("slice", "take"):
        return {o[3] if n == o[2] else n for n in leaves[o[1]][0]}
    if o[0] == "cat":
        return {o[3] if n == o[2] else n for n in leaves[o[1][0]][0]}


def adj_monomials(leaves, occs, expr):
    k = expr[0]
    if k == "occ":
        return [frozenset(occ_names(leaves, occs[expr[1]]))]
    if k == "mul":
        return [m | n for m in adj_monomials(leaves, occs, expr[1]) for n in adj_monomials(leaves, occs, expr[2])]
    if k == "add":
        return adj_monomials(leaves, occs, expr[1]) + adj_monomials(leaves, occs, expr[2])
    return [m - set(expr[2]) for m in adj_monomials(leaves, occs, expr[1])]


def adj_has_unrelated(leaves, occs, expr):
    """some reduction ranges over a variable that a whole summand of its operand does not mention"""
    k = expr[0]
    if k == "occ":
        return False
    if k in ("mul", "add"):
        return adj_has_unrelated(leaves, occs, expr[1]) or adj_has_unrelated(leaves, occs, expr[2])
    return any(not set(expr[2]) <= m for m in adj_monomials(leaves, occs, expr[1])) or adj_has_unrelated(leaves, occs, expr[1])


def check_adjoint(case, out):
    from funsor.adjoint import forward_backward
    from funsor.optimizer import apply_optimizer

    sr, leaves = adj_setup(case)
    occs = [tuple(o) for o in case["occs"]]
    expr = case["expr"]
    fleaves = [Tensor(arr, OrderedDict((n, Bint[k]) for n, k in zip(names, np.shape(arr)))) for names, arr in leaves]
    want_root = adj_eval(sr, leaves, occs, expr)
    root_names = want_root[0]
    sizes = dict(zip(root_names, np.shape(want_root[1])))
    kinds = sorted({o[0] for o in occs} - {"id"})
    multi = len({(o[1] if o[0] != "cat" else o[1]) for o in occs}) < len(occs)
    if any(o[0] == "cat" and o[2] != o[3] for o in occs):
        kinds = kinds + ["cat-part-name"]
    tags0 = [sr.name] + (["unrelated-var"] if adj_has_unrelated(leaves, occs, expr) else []) + [{"ren": "rename", "diag": "diagonal", "slice": "slice", "take": "index-tensor", "cat": "cat", "cat-part-name": "cat-part-name"}[k] for k in kinds] + (["repeated-leaf"] if multi else []) + (["sum-node"] if "'add'" in repr(expr) else []) + (["free-output"] if root_names else [])
    key = (case["sr"], repr(case["leaves"]), repr(occs), repr(expr), case["seed"])
    nontrivial = len(occs) >= 2 and any(k >= 2 for _, arr in leaves for k in np.shape(arr))
    for mode in case.get("modes", ["reflect", "lazy", "reflect+optimizer"]):
        tags = tags0 + [mode]

        def thunk():
            interp = lazy if mode.startswith("lazy") else reflect
            with interp:
                e = adj_build(sr, fleaves, leaves, occs, expr)
                if mode.endswith("optimizer"):
                    e = apply_optimizer(e)
            return e, forward_backward(sr.sum_op, sr.prod_op, e)

        try:
            term, (fwd, bwd) = thunk()
        except Exception as e:
            out.decline("C11.forward_backward", mode + ":" + exc_reason(e))
            continue
        # forward value == ordinary evaluation
        try:
            got = to_nt(fwd)
        except NotGround as e:
            out.decline("C11.forward", "stays-lazy:%s" % e)
            continue
        out.ok("C11.forward", (key, mode, "fwd"), nontrivial)
        d = compare(got, want_root, sizes)
        if d is not None:
            out.fail("C11.forward", d, tags + ["forward"])
        for li, (names, arr) in enumerate(leaves):
            want = adj_oracle(sr, leaves, occs, expr, li, root_names, sizes)
            if want is None:
                continue
            if not term_contains(term, fleaves[li]):
                # the interpretation evaluated the substitution / Cat while building: the leaf object is not a
                # factor of the term the tape sees, so the property says nothing about it
                out.decline("C11.adjoint", mode + ":leaf-not-in-term")
                continue
            try:
                a = bwd[fleaves[li]]
                got = to_nt(a)
            except NotGround as e:
                out.decline("C11.adjoint", "stays-lazy:%s" % e)
                continue
            except Exception as e:
                out.decline("C11.adjoint", "lookup:" + exc_reason(e))
                continue
            asizes = dict(sizes)
            asizes.update(zip(want[0], np.shape(want[1])))
            out.ok("C11.adjoint", (key, mode, "adj", li), nontrivial)
            d = compare(got, want, asizes)
            if d is not None and root_names:
                # The statement fixes the adjoint for a fully reduced root.  With free root inputs funsor keeps some of
                # them (per-output derivative) and sums others out (as the statement literally reads: "sum over all
                # variables the leaf does not mention"), depending on the operation; accept the per-output derivative
                # summed over ANY subset of the root inputs the leaf does not mention, report what matches none of them.
                extra = [n for n in root_names if n not in names]
                for r in range(1, len(extra) + 1):
                    for sub in itertools.combinations(extra, r):
                        if compare(got, nt_reduce(sr, want, list(sub)), asizes) is None:
                            d = None
                            break
                    if d is None:
                        break
                if d is not None:
                    d += "\n (nor is it that derivative summed over any subset of the root inputs %s)" % (extra,)
            if d is not None:
                out.fail("C11.adjoint", "leaf %d %s: %s" % (li, list(names), d), tags + ["adjoint"])


# ==== SECTION: TAIL ====  dispatch / replay

CHECKERS = {k[6:]: v for k, v in list(globals().items()) if k.startswith("check_") and k != "check_case"}


def check_case(case):
    import warnings

    out = Out()
    np.random.seed(case.get("seed", 0))
    with np.errstate(all="ignore"), warnings.catch_warnings():
        warnings.simplefilter("ignore")
        CHECKERS[case["kind"]](case, out)
    return out


def replay_main(case):
    out = check_case(case)
    for c, d, t in out.fails:
        print("VIOLATION", c, t, "\n", d)
    print("evaluations:", len(out.evals), "declined:", len(out.declined), "failures:", len(out.fails))
    return 1 if out.fails else 0
