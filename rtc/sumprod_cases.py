"""Case enumerations (small-scope, deterministic given the seed) for drv_sumprod."""
import itertools
import math

import numpy as np

FIVE = ["add_mul", "logaddexp_add", "max_add", "min_add", "max_mul"]
SEVEN = FIVE + ["min_mul", "or_and"]


def _seeded(cases, seed):
    for i, c in enumerate(cases):
        c["seed"] = (seed * 1000003 + i * 7919 + 17) % (2**31 - 1)
    return cases


# ---------------------------------------------------------------------------------------------------
# C10
# ---------------------------------------------------------------------------------------------------


def cases_c10(tier, seed):
    quick = tier == "quick"
    srs = FIVE if quick else SEVEN
    durations = list(range(1, 10)) if quick else list(range(1, 13))
    if quick:
        pairs = [[1], [2], [3], [2, 2], [2, 3], [1, 3]]
        batches = [[], [2], [3, 2]]
    else:
        pairs = [list(p) for r in (1, 2) for p in itertools.product((1, 2, 3), repeat=r)] + [list(p) for p in itertools.product((1, 2), repeat=3)] + [[3, 2, 1]]
        batches = [[], [1], [2], [3, 2], [2, 3]]
    cases = []
    for sr in srs:
        for T in durations:
            for pr in pairs:
                if sr in ("min_mul", "or_and") and (len(pr) == 3 or T % 2 == 0):
                    continue  # the two extra semirings of the thorough tier run on a reduced grid
                for b in batches:
                    for td in (True, False):
                        cases.append(dict(kind="markov", sr=sr, duration=T, pairs=pr, batch=b, time_dep=td, lacks=None, param=None))
    # free real parameter; a step variable the transition does not mention
    sub_pairs = [[2], [2, 3]] if quick else [[2], [2, 3], [2, 2, 2]]
    sub_batches = [[], [2]]
    for sr in FIVE:
        params = [None, "prod", "other"]
        for T in durations:
            for pr in sub_pairs:
                for b in sub_batches:
                    for td in (True, False):
                        for lacks in (None, "p0", "c0", "p%d" % (len(pr) - 1)):
                            for param in params:
                                if lacks is None and param is None:
                                    continue  # already in the main grid
                                if quick and param is not None and lacks is not None and (T > 5 or b):
                                    continue
                                if param is not None and T > (6 if quick else 9):
                                    continue
                                if quick and param is not None and T > 4 and pr != [2]:
                                    continue
                                if not quick and param is not None and lacks is not None and T > 6:
                                    continue
                                cases.append(dict(kind="markov", sr=sr, duration=T, pairs=pr, batch=b, time_dep=td, lacks=lacks, param=param))
    # time-lagged models
    lagsets = [c for r in range(0, 4) for c in itertools.combinations((1, 2, 3), r)]
    one = [[(2, l)] for l in lagsets] + [[(3, l)] for l in lagsets if l and max(l) <= 2] + [[(1, (1, 2))]]
    two = [[(2, (1,)), (2, (2,))], [(2, (1,)), (3, ())], [(2, ()), (2, (1, 2))], [(2, (1, 3)), (2, (2,))], [(3, (1,)), (2, (1,))], [(2, (2,)), (2, (2,))]]
    if not quick:
        two += [[(2, a), (2, b)] for a in lagsets for b in lagsets if a <= b and _sb_width([(2, a), (2, b)]) <= 16]
        two += [[(2, (1,)), (2, (1,)), (2, (2,))], [(2, (3,)), (2, ()), (2, (1,))]]
    sb_durations = durations
    for sr in srs:
        for T in sb_durations:
            for vs in one + two:
                if _sb_width(vs) > 16 and T >= 2 * _sb_period(vs):
                    continue  # the block transition of >= 2 full periods would have > 2^24 entries
                for gl in ([], [2]) if quick else ([], [3]):
                    cases.append(dict(kind="sb", sr=sr, duration=T, vars=[(n, tuple(l)) for n, l in vs], globals=gl, num_periods=[1, 2, 3] if quick else [1, 2, 3, 4]))
    if not quick:
        # seeded random continuation: longer chains and random shapes
        rs = np.random.RandomState(seed + 1010)
        for _ in range(800):
            pr = [int(x) for x in rs.randint(1, 4, size=rs.randint(1, 4))]
            cases.append(
                dict(
                    kind="markov",
                    sr=SEVEN[rs.randint(7)],
                    duration=int(rs.randint(1, 17)),
                    pairs=pr if math.prod(pr) <= 9 else pr[:2],
                    batch=[int(x) for x in rs.randint(1, 4, size=rs.randint(0, 3))],
                    time_dep=bool(rs.rand() < 0.8),
                    lacks=None,
                    param=None,
                )
            )
    bounds = dict(
        semirings=srs,
        durations=[durations[0], durations[-1]],
        state_pairs="%d..%d pairs, sizes 1-3 (%d size patterns)" % (1, max(len(p) for p in pairs), len(pairs)),
        batch_inputs=batches,
        time_dependent=[True, False],
        num_segments="every 1..duration and None",
        markov_functions=["sequential_sum_product", "naive_sequential_sum_product", "mixed_sequential_sum_product", "MarkovProduct eager / lazy+reinterpret / lazy+rename / eager-subs-into-lazy"],
        free_real_parameter="trans = tensor (prod_op | other op) Variable('w', Real), evaluated at w in {0.7, 1.9}; grid subset %s x %s" % (sub_pairs, sub_batches),
        lacking_step_variable="trans not mentioning p0 / c0 / last prev (subset grid)",
        lag_model_size_bound="models whose block transition over >= 2 full periods would exceed 2^24 entries are skipped at those durations (two-variable models with lcm of lags 6)",
        lag_models="%d models: one variable with every lag set over {1,2,3}, two/three variables; globals 0-%d; num_periods %s" % (len(one + two), 1, "1..3" if quick else "1..4"),
        sarkka_bilmes_fold_precondition="explicit-fold oracle applies to models with at least one lag; lag-free transitions are checked against the plain product over time (documented degenerate behaviour)",
        nontrivial_rule="duration >= 2 and (some state size >= 2 | some lag present)",
        random_continuation=0 if quick else 800,
        exhaustive_subspaces="the whole stated grid is enumerated (the thorough tier adds a seeded random continuation on top)",
    )
    return _seeded(cases, seed), bounds, True


def _sb_period(vs):
    period = 1
    for _, ls in vs:
        for k in ls:
            period = period * k // math.gcd(period, k)
    return period


def _sb_width(vs):
    period = _sb_period(vs)
    w = 0
    for n, ls in vs:
        w += math.log2(max(n, 1)) * (2 * period + (max(ls) if ls else 0))
    return w


# ---------------------------------------------------------------------------------------------------
# C08
# ---------------------------------------------------------------------------------------------------


def _subsets(vs):
    vs = list(vs)
    return [tuple(c) for r in range(len(vs) + 1) for c in itertools.combinations(vs, r)]


def _L(i):
    return ("leaf", i)


def _red(e, R):
    return ("red", e, tuple(R)) if R else e


def _sizes_for(rs, names):
    return {n: int(rs.choice([1, 2, 2, 3, 3])) for n in names}


TEMPLATES = {
    # name: (number of leaves, number of reduce sets, builder)
    "nested_reduce": (3, 2, lambda R: _red(("mul", _red(("mul", _L(0), _L(1)), R[0]), _L(2)), R[1])),
    "distribute": (3, 1, lambda R: _red(("mul", ("add", _L(0), _L(1)), _L(2)), R[0])),
    "sum_reduce": (2, 1, lambda R: _red(("add", _L(0), _L(1)), R[0])),
    "sum_of_products": (4, 1, lambda R: _red(("add", ("mul", _L(0), _L(1)), ("mul", _L(2), _L(3))), R[0])),
    "product_of_sums": (4, 1, lambda R: _red(("mul", ("add", _L(0), _L(1)), ("add", _L(2), _L(3))), R[0])),
    "product_of_reduces": (2, 2, lambda R: ("mul", _red(_L(0), R[0]), _red(_L(1), R[1]))),
    "sum_with_reduced": (2, 2, lambda R: _red(("add", _red(_L(0), R[0]), _L(1)), R[1])),
    "rename_leaf": (2, 1, lambda R: _red(("mul", ("ren", _L(0), (("a", "x"),)), _L(1)), R[0])),
    "index_leaf": (2, 1, lambda R: _red(("mul", ("idx", _L(0), "a", 0), _L(1)), R[0])),
    "index_after_reduce": (2, 1, lambda R: ("idx", _red(("mul", _L(0), _L(1)), R[0]), "b", 0)),
    "rename_onto_bound": (2, 0, lambda R: ("ren", _red(("mul", _L(0), _L(1)), ("a",)), (("b", "a"),))),
    "rename_after_sum": (3, 1, lambda R: ("ren", _red(("add", ("mul", _L(0), _L(1)), _L(2)), R[0]), (("b", "y"),))),
    "reduce_of_reduce_sum": (3, 2, lambda R: _red(("add", _red(("mul", _L(0), _L(1)), R[0]), _L(2)), R[1])),
    # the SAME reduction occurring twice / three times (built lazily it is one cons-hashed object with one bound name):
    # unfolding must not identify the bound variables of the occurrences
    "shared_reduce_squared": (1, 1, lambda R: ("mul", _red(_L(0), R[0]), _red(_L(0), R[0]))),
    "shared_reduce_cubed": (1, 1, lambda R: ("mul", ("mul", _red(_L(0), R[0]), _red(_L(0), R[0])), _red(_L(0), R[0]))),
    "shared_reduce_under_reduce": (2, 2, lambda R: _red(("mul", ("mul", _red(_L(0), R[0]), _red(_L(0), R[0])), _L(1)), R[1])),
    "shared_product_reduce_sum": (2, 1, lambda R: ("add", _red(("mul", _L(0), _L(1)), R[0]), _red(("mul", _L(0), _L(1)), R[0]))),
}


def _random_expr(rs, nleaves, V):
    """random nested sum/product/reduce/substitution tree over leaves 0..nleaves-1"""
    nodes = [_L(i) for i in range(nleaves)]
    while len(nodes) > 1:
        i = rs.randint(len(nodes))
        a = nodes.pop(i)
        j = rs.randint(len(nodes))
        b = nodes.pop(j)
        e = ("mul" if rs.rand() < 0.6 else "add", a, b)
        u = rs.rand()
        if u < 0.35:
            R = tuple(v for v in V if rs.rand() < 0.4)
            e = _red(e, R)
        elif u < 0.42:
            e = ("idx", e, V[rs.randint(len(V))], 0)
        elif u < 0.5:
            e = ("ren", e, ((V[rs.randint(len(V))], "x"),))
        nodes.append(e)
    e = nodes[0]
    R = tuple(v for v in V if rs.rand() < 0.5)
    return _red(e, R)


def _uses_x_twice(e):
    # at most one rename onto "x" per expression (renaming two different inputs onto one name is outside the property)
    return repr(e).count("'x'") > 1


def cases_c08(tier, seed):
    quick = tier == "quick"
    rs = np.random.RandomState(seed + 808)
    cases = []
    srs = SEVEN
    # ---- flat sum-product expressions: every incidence pattern, every reduced subset
    V3 = ["a", "b", "c"]
    V4 = ["a", "b", "c", "d"]
    flat = []
    kmax_exh = 3 if quick else 4
    for k in range(1, kmax_exh + 1):
        for pat in itertools.combinations_with_replacement(_subsets(V3), k):
            flat.append((V3, pat))
    big = [(4, 10), (5, 10)] if quick else [(4, 40), (5, 40), (6, 30), (7, 20), (8, 20)]
    for k, n in big:
        for _ in range(n):
            pat = tuple(tuple(v for v in V4 if rs.rand() < 0.45) for _ in range(k))
            flat.append((V4, pat))
    nflat = 0
    for V, pat in flat:
        pat = [pat[i] for i in rs.permutation(len(pat))]
        for R in _subsets(V):
            sizes = _sizes_for(rs, V)
            for sr in srs:
                e = ("prod", tuple(_L(i) for i in range(len(pat))))
                cases.append(dict(kind="expr", family="flat", sr=sr, sizes=sizes, leaves=[dict(vars=list(p)) for p in pat], expr=_red(e, R)))
                nflat += 1
    # flat with a free real parameter operand
    npar = 0
    for V, pat in flat:
        if len(pat) not in (2, 3) or V is not V3:
            continue
        if rs.rand() > (0.25 if quick else 1.0):
            continue
        for R in _subsets(V):
            if quick and rs.rand() > 0.5:
                continue
            sizes = _sizes_for(rs, V)
            for sr in srs:
                if sr == "or_and":
                    continue
                leaves = [dict(vars=list(p)) for p in pat]
                leaves[rs.randint(len(leaves))]["param"] = ["prod", "other", "var"][rs.randint(3)]
                e = ("prod", tuple(_L(i) for i in range(len(pat))))
                cases.append(dict(kind="expr", family="flat", sr=sr, sizes=sizes, leaves=leaves, expr=_red(e, R)))
                npar += 1
    # ---- nested templates: all leaf incidence patterns over V2 (quick) / V3 (thorough, capped)
    V2 = ["a", "b"]
    ntemp = 0
    for tname, (nl, nr, fn) in TEMPLATES.items():
        V = V2 if quick else V3
        combos = list(itertools.product(itertools.product(_subsets(V), repeat=nl), itertools.product(_subsets(V), repeat=nr)))
        cap = 100 if quick else 350
        if len(combos) > cap:
            idx = sorted(rs.choice(len(combos), size=cap, replace=False))
            combos = [combos[i] for i in idx]
        for lv, R in combos:
            e = fn(R)
            sizes = _sizes_for(rs, V + ["x", "y"])
            sizes["x"] = sizes["a"]
            sizes["y"] = sizes["b"]
            if tname in ("rename_leaf", "index_leaf") and "a" not in lv[0]:
                continue
            if tname == "rename_onto_bound" and not ("b" in lv[0] or "b" in lv[1]):
                continue
            if tname == "rename_onto_bound":
                sizes["b"] = sizes["a"]
            for sr in srs:
                cases.append(dict(kind="expr", family="nested:" + tname, sr=sr, sizes=dict(sizes), leaves=[dict(vars=list(p)) for p in lv], expr=e))
                ntemp += 1
            # the same with a parameter operand (sampled)
            if rs.rand() < (0.15 if quick else 0.3):
                for sr in srs:
                    if sr == "or_and":
                        continue
                    leaves = [dict(vars=list(p)) for p in lv]
                    leaves[rs.randint(len(leaves))]["param"] = ["prod", "other", "var"][rs.randint(3)]
                    cases.append(dict(kind="expr", family="nested:" + tname, sr=sr, sizes=dict(sizes), leaves=leaves, expr=e))
                    ntemp += 1
    # ---- random nested trees
    nrand = 0
    for _ in range(200 if quick else 1500):
        nl = int(rs.randint(2, 6 if quick else 9))
        V = V3 if rs.rand() < 0.6 else V4
        e = _random_expr(rs, nl, V)
        if _uses_x_twice(e):
            continue
        sizes = _sizes_for(rs, V + ["x"])
        # renaming v -> x keeps the size of v; make all sizes equal where a rename occurs to stay well-typed
        if "'ren'" in repr(e):
            n = sizes["a"]
            sizes = {k: n for k in sizes}
        leaves = [dict(vars=[v for v in V if rs.rand() < 0.5]) for _ in range(nl)]
        if rs.rand() < 0.25:
            leaves[rs.randint(nl)]["param"] = ["prod", "other", "var"][rs.randint(3)]
        for sr in srs:
            if sr == "or_and" and any(l.get("param") for l in leaves):
                continue
            cases.append(dict(kind="expr", family="random", sr=sr, sizes=dict(sizes), leaves=leaves, expr=e))
            nrand += 1
    # ---- einsum equations
    neq = 0
    syms = "abc" if quick else "abcd"
    kmax = 3 if quick else 4
    ordered = [""] + ["".join(p) for r in range(1, len(syms) + 1) for c in itertools.combinations(syms, r) for p in itertools.permutations(c)]
    unordered = ["".join(c) for c in _subsets(syms)]
    for k in range(1, kmax + 1):
        if k <= 2:
            pats = list(itertools.product(unordered, repeat=k))
        else:
            pats = list(itertools.combinations_with_replacement(unordered, k))
        for pat in pats:
            allv = sorted(set("".join(pat)))
            outsets = _subsets(allv)
            if k == 4 and len(outsets) > 8:
                # 4 operands: the empty and the full output plus 6 seeded output subsets
                outsets = [outsets[0], outsets[-1]] + [outsets[i] for i in sorted(rs.choice(range(1, len(outsets) - 1), size=6, replace=False))]
            for outset in outsets:
                # symbol order inside operands / output: seeded permutation (both orders of every pair occur over the run)
                inputs = ["".join(p[i] for i in rs.permutation(len(p))) for p in pat]
                output = "".join(outset[i] for i in rs.permutation(len(outset)))
                sizes = _sizes_for(rs, syms)
                for sr in ("add_mul", "logaddexp_add", "max_add"):
                    cases.append(dict(kind="einsum", sr=sr, sizes=sizes, inputs=inputs, output=output))
                    neq += 1
    bounds = dict(
        semirings=srs,
        flat="every multiset of operand variable-sets with <= %d operands over 3 variables x every reduced subset of the 3 variables (incl. variables no operand mentions); plus %s seeded patterns (operands, count) over 4 variables x all 16 reduced subsets" % (kmax_exh, big),
        sizes="each variable 1-3 (seeded, P(1)=0.2)",
        routes=["eager", "lazy/normalize-built then eager reinterpret", "lazy/normalize-built then apply_optimizer", "lazy-built, reinterpret under unfold, then eager", "normalize idempotence (is)", "einsum / naive_einsum / naive_plated_einsum (flat, 3 backends)"] + ([] if quick else ["the reflect-built variant of each route"]),
        nested_templates={k: v[0] for k, v in TEMPLATES.items()},
        nested_universe="2 variables, capped 100 patterns/template" if quick else "3 variables, capped 350 patterns/template",
        random_trees=200 if quick else 1500,
        parameter_operand="one operand is tensor (x) w / tensor (other op) w / the bare Variable w; evaluated at w in {0.7, 1.9}",
        einsum_equations="<= %d operands x %d symbols, every multiset of operand symbol-sets (every tuple for <= 2 operands) x every output subset (4 operands over 4 symbols: empty, full and 6 seeded subsets); symbol order seeded; backends numpy, numpy_log, numpy_map" % (kmax, len(syms)),
        counts=dict(flat=nflat, flat_param=npar, nested=ntemp, random=nrand, einsum=neq),
        nontrivial_rule="expr: >= 2 operands and some mentioned variable of size >= 2; einsum: some symbol of size >= 2",
        exhaustive_subspaces="flat incidence patterns over 3 variables x reduced subsets, and einsum operand-set patterns x output subsets, are complete up to symbol order; sizes and data are seeded; 4-variable patterns, capped templates, parameter variants and random trees are seeded samples",
    )
    if quick:
        for c in cases:
            if c["kind"] == "expr":
                c["light"] = True
    return _seeded(cases, seed), bounds, False


# ---------------------------------------------------------------------------------------------------
# C09
# ---------------------------------------------------------------------------------------------------


def _canon_graph(facs, V, P):
    """canonical representative under renaming of variables and of plates"""
    best = None
    for pv in itertools.permutations(V):
        mv = dict(zip(V, pv))
        for pp in itertools.permutations(P):
            mp_ = dict(zip(P, pp))
            g = tuple(sorted((tuple(sorted(mv[v] for v in fv)), tuple(sorted(mp_[p] for p in fp))) for fv, fp in facs))
            if best is None or g < best:
                best = g
    return best


def _graphs(nf_max, V, P):
    opts = [(fv, fp) for fv in _subsets(V) for fp in _subsets(P)]
    seen = set()
    out = []
    for k in range(1, nf_max + 1):
        for facs in itertools.combinations_with_replacement(opts, k):
            used_v = set().union(*(set(fv) for fv, _ in facs))
            used_p = set().union(*(set(fp) for _, fp in facs))
            # use an initial segment of the names (others are covered by the smaller universes)
            if used_v != set(V[: len(used_v)]) or used_p != set(P[: len(used_p)]):
                continue
            c = _canon_graph(facs, V, P)
            if c in seen:
                continue
            seen.add(c)
            out.append(c)
    return out


def cases_c09(tier, seed):
    quick = tier == "quick"
    rs = np.random.RandomState(seed + 909)
    srs = FIVE
    cases = []
    V = ["a", "b", "c", "d"]
    P = ["i", "j", "k"]
    if quick:
        exh = _graphs(3, V[:2], P[:2])
        nbig, big_shape, e_per_graph = 110, (4, 3, 2), 4
    else:
        exh = _graphs(3, V[:3], P[:2])
        four = [g for g in _graphs(4, V[:2], P[:2]) if len(g) == 4]
        nbig, big_shape, e_per_graph = 700, (5, 4, 3), 6
    graphs = [(g, True) for g in exh]
    if not quick:
        graphs += [(g, False) for g in four]  # every 4-factor graph, seeded eliminate sets
    for _ in range(nbig):
        nf = int(rs.randint(3, big_shape[0] + 1))
        nv = int(rs.randint(2, big_shape[1] + 1))
        np_ = int(rs.randint(1, big_shape[2] + 1))
        g = []
        for _f in range(nf):
            fv = tuple(v for v in V[:nv] if rs.rand() < 0.5)
            fp = tuple(p for p in P[:np_] if rs.rand() < 0.5)
            g.append((fv, fp))
        graphs.append((tuple(g), False))
    nexh = 0
    for g, exhaustive in graphs:
        names = sorted(set().union(*(set(fv) | set(fp) for fv, fp in g)))
        if not names:
            esets = [()]
        else:
            esets = _subsets(names)
        if not exhaustive and len(esets) > e_per_graph:
            # always the full elimination, plus a seeded sample
            idx = rs.choice(len(esets) - 1, size=e_per_graph - 1, replace=False)
            esets = [esets[-1]] + [esets[i] for i in sorted(idx)]
        for E in esets:
            sizes = {n: int(rs.choice([1, 2, 2, 2, 3])) for n in V + P}
            # keep the unrolled model small: at most 9 copies of a variable
            for sr_i, sr in enumerate(srs):
                facs = [dict(vars=list(fv), plates=list(fp)) for fv, fp in g]
                cases.append(dict(kind="plated", sr=sr, factors=facs, plates=[p for p in P if p in names], sizes=dict(sizes), eliminate=list(E)))
                nexh += 1
            if rs.rand() < (0.06 if quick else 0.15) and g:
                for sr in srs:
                    facs = [dict(vars=list(fv), plates=list(fp)) for fv, fp in g]
                    facs[rs.randint(len(facs))]["param"] = ["prod", "other"][rs.randint(2)]
                    cases.append(dict(kind="plated", sr=sr, factors=facs, plates=[p for p in P if p in names], sizes=dict(sizes), eliminate=list(E)))
    bounds = dict(
        semirings=srs,
        exhaustive_graphs="every plated factor graph up to renaming with <= 3 factors over <= %d variables and <= 2 plates%s: %d graphs, every eliminate subset of the used names" % (2 if quick else 3, "" if quick else " (plus every 4-factor graph over 2 variables / 2 plates with the full and 5 seeded eliminate sets)", len(exh)),
        sampled_graphs="%d seeded graphs with <= %d factors, <= %d variables, <= %d plates, full elimination + %d seeded eliminate sets each" % (nbig, big_shape[0], big_shape[1], big_shape[2], e_per_graph - 1),
        sizes="every variable / plate size in 1..3 (seeded, P(2)=0.6)",
        functions=["sum_product", "partial_sum_product", "modified_/dynamic_partial_sum_product with empty steps", "partial_sum_product twice for every admissible split (E1|E2)", "einsum(plates=...) and naive_plated_einsum (numpy, numpy_log, numpy_map)", "sum_product(plate_to_scale={p:2} / {p:3,q:2})", "sum_product(pedantic=True) raises iff a preserved variable lives in an eliminated plate"],
        well_formed="value contracts require: no preserved variable lives in an eliminated plate (otherwise only the pedantic contract is evaluated)",
        split_precondition="both stages well-formed; a variable summed in stage 1 is not shared across indices of a plate reduced in stage 2",
        declines="ValueError / NotImplementedError = declined (never compared); a returned value is always compared with the exact unrolled oracle",
        parameter_operand="sampled: one factor is tensor (prod|other op) Variable('w'), evaluated at w in {0.7, 1.9}",
        nontrivial_rule=">= 2 factors, an eliminated plate of size >= 2 and a variable living in a plate",
        exhaustive_subspaces="the small graphs (up to renaming) x every eliminate subset x every admissible split are complete; sizes / data are seeded; larger graphs are seeded samples",
    )
    return _seeded(cases, seed), bounds, False


# ---------------------------------------------------------------------------------------------------
# C11
# ---------------------------------------------------------------------------------------------------


def _O(k):
    return ("occ", k)


def _adj_templates(nocc):
    """expression shapes over occurrences 0..nocc-1; each yields (name, builder(R sets) -> expr, reduce-scope fns)"""
    out = []

    def flat(R):
        e = _O(0)
        for k in range(1, nocc):
            e = ("mul", e, _O(k))
        return ("red", e, tuple(R[0])) if R[0] else e

    out.append(("flat", flat, [list(range(nocc))]))
    if nocc >= 3:

        def dist(R):
            e = ("mul", ("add", _O(0), _O(1)), _O(2))
            for k in range(3, nocc):
                e = ("mul", e, _O(k))
            return ("red", e, tuple(R[0])) if R[0] else e

        out.append(("sum_times", dist, [list(range(nocc))]))

        def nested(R):
            inner = ("mul", _O(0), _O(1))
            inner = ("red", inner, tuple(R[0])) if R[0] else inner
            e = inner
            for k in range(2, nocc):
                e = ("mul", e, _O(k))
            return ("red", e, tuple(R[1])) if R[1] else e

        out.append(("nested", nested, [[0, 1], list(range(nocc))]))
    if nocc >= 2:

        def plus(R):
            e = _O(0)
            for k in range(1, nocc - 1):
                e = ("mul", e, _O(k))
            e = ("add", e, _O(nocc - 1))
            return ("red", e, tuple(R[0])) if R[0] else e

        out.append(("product_plus", plus, [list(range(nocc))]))
    return out


def _adj_case(rs, sr, pattern, template, Rsets, sizes, transform, repeat):
    """pattern: variable sets of the occurrences"""
    leaves = []
    occs = []
    for k, vs in enumerate(pattern):
        spec = [(v, sizes[v]) for v in vs]
        if repeat and k > 0 and tuple(pattern[k]) == tuple(pattern[0]) and occs and occs[0][0] == "id":
            occs.append(("id", occs[0][1]))
            continue
        leaves.append(spec)
        occs.append(("id", len(leaves) - 1))
    if transform:
        # transform the first occurrence that has a variable
        for k, vs in enumerate(pattern):
            if not vs or occs[k][0] != "id" or sum(1 for o in occs if o[1] == occs[k][1]) > 1:
                continue
            li = occs[k][1]
            v = vs[int(rs.randint(len(vs)))]
            m = sizes[v]
            spec = list(leaves[li])
            ax = [n for n, _ in spec].index(v)
            if transform == "ren":
                spec[ax] = ("p", m)
                ren = [("p", v)]
                others = [n for n, _ in spec if n not in ("p",)]
                if others and rs.rand() < 0.5:
                    w = others[0]
                    spec[[n for n, _ in spec].index(w)] = ("q", sizes[w])
                    ren.append(("q", w))
                leaves[li] = spec
                occs[k] = ("ren", li, tuple(ren))
            elif transform == "diag":
                # the leaf has two inputs p, q of the same size, both renamed to v: the substitution k -> (k, k)
                spec[ax] = ("p", m)
                spec.append(("q", m))
                leaves[li] = spec
                occs[k] = ("diag", li, ("p", "q"), v)
            elif transform == "slice":
                start = int(rs.randint(0, 2))
                step = int(rs.randint(1, 3))
                n = start + step * (m - 1) + 1 + int(rs.randint(0, 2))
                spec[ax] = ("t", n)
                leaves[li] = spec
                occs[k] = ("slice", li, "t", v, start, step, m)
            elif transform == "take":
                n = m + int(rs.randint(0, 3))
                idx = [int(x) for x in rs.permutation(n)[:m]]
                spec[ax] = ("t", n)
                leaves[li] = spec
                occs[k] = ("take", li, "t", v, tuple(idx))
            elif transform == "cat":
                if m < 2:
                    continue
                n1 = int(rs.randint(1, m))
                s1 = list(spec)
                s2 = list(spec)
                s1[ax] = ("t", n1)
                s2[ax] = ("t", m - n1)
                leaves[li] = s1
                if m - n1 == n1 and rs.rand() < 0.4:
                    occs[k] = ("cat", (li, li), "t", v)
                else:
                    leaves.append(s2)
                    occs[k] = ("cat", (li, len(leaves) - 1), "t", v)
            break
    case = dict(kind="adjoint", sr=sr, leaves=[[list(x) for x in sp] for sp in leaves], occs=[list(o) for o in occs], expr=template(Rsets))
    # Cat in its two-argument form (parts carry the concatenated name itself) when that name is bound in the root
    for k, o in enumerate(case["occs"]):
        if o[0] == "cat" and rs.rand() < 0.5 and o[3] not in _adj_free(case):
            v = o[3]
            for li in set(o[1]):
                case["leaves"][li] = [[v if n == "t" else n, m] for n, m in case["leaves"][li]]
            case["occs"][k] = ["cat", o[1], v, v]
    return case


def _adj_free(case):
    occs = case["occs"]
    leaves = case["leaves"]

    def names(o):
        if o[0] == "id":
            return {n for n, _ in leaves[o[1]]}
        if o[0] == "ren":
            m = dict(o[2])
            return {m.get(n, n) for n, _ in leaves[o[1]]}
        if o[0] == "diag":
            return {o[3] if n in o[2] else n for n, _ in leaves[o[1]]}
        if o[0] in ("slice", "take"):
            return {o[3] if n == o[2] else n for n, _ in leaves[o[1]]}
        return {o[3] if n == o[2] else n for n, _ in leaves[o[1][0]]}

    def free(e):
        if e[0] == "occ":
            return names(occs[e[1]])
        if e[0] in ("mul", "add"):
            return free(e[1]) | free(e[2])
        return free(e[1]) - set(e[2])

    return free(case["expr"])


def cases_c11(tier, seed):
    quick = tier == "quick"
    rs = np.random.RandomState(seed + 1111)
    V3 = ["a", "b", "c"]
    V4 = ["a", "b", "c", "d"]
    pats = []
    kmax = 3 if quick else 4
    for k in range(1, kmax + 1):
        for pat in itertools.combinations_with_replacement(_subsets(V3), k):
            pats.append((V3, pat))
    for k, n in [(4, 16)] if quick else [(5, 120)]:
        for _ in range(n):
            pats.append((V4, tuple(tuple(v for v in V4 if rs.rand() < 0.45) for _ in range(k))))
    cases = []
    ncount = {}
    for V, pat in pats:
        pat = [pat[i] for i in rs.permutation(len(pat))]
        for tname, tfn, scopes in _adj_templates(len(pat)):
            # reduce sets: subsets of the variables mentioned inside the scope
            scope_vars = [sorted(set().union(*(set(pat[k]) for k in sc))) for sc in scopes]
            Rchoices = [_subsets(sv) for sv in scope_vars]
            combos = list(itertools.product(*Rchoices))
            if len(scopes) == 2:
                # variables bound by the inner reduction are not free afterwards
                combos = [(r0, r1) for r0, r1 in combos if not (set(r0) & set(r1))]
            ncomb = 2 if quick else 4
            if tname != "flat" and len(combos) > ncomb:
                combos = [combos[i] for i in sorted(rs.choice(len(combos), size=ncomb, replace=False))]
            elif len(combos) > 8 and len(pat) >= 4:
                combos = [combos[i] for i in sorted(rs.choice(len(combos), size=6, replace=False))] + [combos[-1]]
            for R in combos:
                sizes = _sizes_for(rs, V)
                variants = [(None, False)]
                u = rs.rand()
                if u < (0.4 if quick else 0.6):
                    variants.append((["ren", "slice", "take", "cat", "diag"][rs.randint(5)], False))
                if len(pat) >= 2 and rs.rand() < (0.15 if quick else 0.3):
                    variants.append((None, True))
                for transform, repeat in variants:
                    for sr in ("add_mul", "logaddexp_add"):
                        c = _adj_case(rs, sr, pat, tfn, R, sizes, transform, repeat)
                        # product_plus adds two terms: both must have been reduced over variables they mention
                        if not _adj_reduces_ok(c):
                            continue
                        cases.append(c)
                        ncount[tname] = ncount.get(tname, 0) + 1
    bounds = dict(
        semirings=["add_mul", "logaddexp_add"],
        leaves="1..%d occurrences: every multiset of variable sets over 3 variables (<= %d occurrences) plus %s seeded patterns over 4 variables" % (kmax + 1, kmax, "16 four-occurrence" if quick else "120 five-occurrence"),
        templates=["flat product", "(o0 + o1) * rest", "nested reduction", "product + last"],
        reduced="every subset of the mentioned variables for flat (<= 3 occurrences), %d seeded subsets per pattern for the other templates" % (2 if quick else 4),
        sizes="1-3 per variable (seeded)",
        modes=["reflect-built", "lazy-built", "reflect-built + apply_optimizer"],
        transforms="seeded: renaming of 1-2 inputs, strided Slice (start 0-1, step 1-2), injective index tensor, Cat of two leaves (or of one leaf twice); repeated use of one leaf",
        adjoint_convention="adjoint(leaf) has inputs among leaf inputs + root inputs; a name shared by both denotes the diagonal; compared with the one-hot-probe derivative; when the root keeps free inputs the per-output derivative summed over any subset of the root inputs the leaf does not mention is accepted",
        leaf_identity="a leaf is checked only if it is still a factor of the term handed to the tape (lazy / optimizer evaluate substitutions of tensors eagerly; then counted as declined 'leaf-not-in-term')",
        counts=ncount,
        nontrivial_rule=">= 2 occurrences and some leaf axis of size >= 2",
        exhaustive_subspaces="flat products: every multiset of variable sets over 3 variables x every reduced subset; other templates, transforms and sizes are seeded samples",
    )
    return _seeded(cases, seed), bounds, False


def _adj_reduces_ok(case):
    """every reduction ranges over variables its operand mentions (the oracle evaluator's precondition)"""
    occs = case["occs"]
    leaves = case["leaves"]

    def names(o):
        if o[0] == "id":
            return {n for n, _ in leaves[o[1]]}
        if o[0] == "ren":
            m = dict(o[2])
            return {m.get(n, n) for n, _ in leaves[o[1]]}
        if o[0] == "diag":
            return {o[3] if n in o[2] else n for n, _ in leaves[o[1]]}
        if o[0] in ("slice", "take"):
            return {o[3] if n == o[2] else n for n, _ in leaves[o[1]]}
        if o[0] == "cat":
            return {o[3] if n == o[2] else n for n, _ in leaves[o[1][0]]}

    def free(e):
        """-> (free names, names bound somewhere inside); no name may be bound in one place and used elsewhere"""
        if e[0] == "occ":
            return names(occs[e[1]]), set()
        if e[0] in ("mul", "add"):
            f1, b1 = free(e[1])
            f2, b2 = free(e[2])
            if (b1 & (f2 | b2)) or (b2 & f1):
                raise KeyError  # shadowing: outside the property (the adjoint cannot name both variables)
            return f1 | f2, b1 | b2
        f, b = free(e[1])
        if not set(e[2]) <= f or set(e[2]) & b:
            raise KeyError
        return f - set(e[2]), b | set(e[2])

    try:
        free(case["expr"])
        return True
    except KeyError:
        return False


def enumerate_cases(prop_id, tier, seed):
    return {"C08": cases_c08, "C09": cases_c09, "C10": cases_c10, "C11": cases_c11}[prop_id](tier, seed)
