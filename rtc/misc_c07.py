"""C07: hash-consing -- structural equality is object identity, held weakly (bounded run-time contract).

Model (oracle): every handle the harness holds carries a *construction key* = (recipe, tokens of the
array objects it was built from).  Tokens are integers handed out by the harness when it allocates an
array (never ``id()``), and the model keeps only weak references to arrays, so that dead arrays can be
reclaimed and their ``id()`` reused by later allocations.  Invariants checked on the REAL tables after
every step of every history:

  I1  two live handles are ``is``-identical  iff  their construction keys are equal
  I2  every Tensor leaf reachable from a live handle holds exactly the array object of its key
      (``leaf.data is array``): a request never receives a stale object built from another array
  I3  reinterpretation under reflect returns the identical object; a pickle round trip returns the
      identical object when no array is involved, and preserves sharing otherwise
  I4  after gc the distinct objects in every ``_cons_cache`` are exactly the baseline plus the funsors
      reachable from live handles; after dropping everything the tables are back at the baseline
"""
import copy
import gc
import itertools
import pickle
import sys
import weakref

sys.path.insert(0, __import__("os").environ.get("VERIF_REPO", "/repo"))
from collections import OrderedDict  # noqa: E402

import numpy as np  # noqa: E402

import funsor  # noqa: E402
from funsor import ops  # noqa: E402
from funsor.cnf import Contraction  # noqa: E402
from funsor.domains import Array, ArrayType, Bint, Product, ProductDomain, Real, Reals  # noqa: E402
from funsor.interpretations import eager, lazy, reflect  # noqa: E402
from funsor.interpreter import reinterpret  # noqa: E402
from funsor.tensor import Tensor  # noqa: E402
from funsor.terms import Binary, Funsor, Number, Reduce, Subs, Unary, Variable  # noqa: E402

funsor.set_backend("numpy")

TRACKED = [Tensor, Number, Variable, Binary, Unary, Reduce, Contraction, Subs]
RECIPES = ["T_A", "T_Anew", "T_B", "N", "BIN_A", "RED_A"]
STEPS = ["c:" + r for r in RECIPES] + ["drop_first", "drop_last", "gc", "pickle_last", "reinterp_last", "realloc_B", "analyse_last"]
INTERPS = [reflect, lazy, eager]


class World:
    """Harness state.  Strong references: self.A, self.B (current slot arrays) and self.handles."""

    def __init__(self):
        self.ntok = 0
        self.arr = {}  # token -> weakref(array)
        self.A = self.new_array()
        self.B = self.new_array()
        self.handles = []  # list of [funsor, key]
        self.nconstruct = 0

    def new_array(self):
        # every other array is a strided (non-contiguous) view: the term must wrap the very object it was given
        if self.ntok % 2 == 0:
            a = np.array([1.0, 2.0, 3.0])
        else:
            a = np.array([1.0, 0.0, 2.0, 0.0, 3.0, 0.0])[::2]
        self.ntok += 1
        a_tok = self.ntok
        self.arr[a_tok] = weakref.ref(a)
        return (a, a_tok)


def leaves(f, acc=None, seen=None):
    """Tensor leaves of a term in traversal order (identity-deduplicated)."""
    acc = [] if acc is None else acc
    seen = set() if seen is None else seen
    if isinstance(f, Funsor):
        if id(f) in seen:
            return acc
        seen.add(id(f))
        if isinstance(f, Tensor):
            acc.append(f)
        for a in f._ast_values:
            leaves(a, acc, seen)
    elif isinstance(f, (tuple, frozenset)):
        for a in f:
            leaves(a, acc, seen)
    return acc


def reachable(f, acc):
    if isinstance(f, Funsor):
        if id(f) in acc:
            return
        acc[id(f)] = f
        for a in f._ast_values:
            reachable(a, acc)
        for v in getattr(f, "__dict__", {}).get("input_vars", ()):  # lazy_property cache keeps Variables alive
            reachable(v, acc)
    elif isinstance(f, (tuple, frozenset)):
        for a in f:
            reachable(a, acc)


def full_gc():
    """Collect until quiescent: CPython frees a class referenced only from another dead class in a later pass."""
    for _ in range(6):
        if gc.collect() == 0:
            break


def cache_objects(cls):
    return {id(v): v for v in list(cls._cons_cache.values())}


def build(w, recipe, interp):
    """-> (funsor, key).  Built under ``interp`` (composites only under reflect/lazy)."""
    X = Variable("x", Real)
    inputs = OrderedDict(i=Bint[3])
    if recipe == "T_Anew":
        w.A = w.new_array()  # the old array object is dropped by the harness here
    if recipe in ("T_A", "T_Anew"):
        with interp:
            f = Tensor(w.A[0], inputs)
        return f, ("T", w.A[1])
    if recipe == "T_B":
        with interp:
            f = Tensor(w.B[0], inputs)
        return f, ("T", w.B[1])
    if recipe == "N":
        with interp:
            f = Number(1.5)
        return f, ("N",)
    if interp is eager:
        interp = lazy
    if recipe == "BIN_A":
        with interp:
            f = Tensor(w.A[0], inputs) + X
        return f, ("BIN", w.A[1])
    if recipe == "RED_A":
        with interp:
            f = (Tensor(w.A[0], inputs) * X).reduce(ops.add, "i")
        return f, ("RED", w.A[1])
    raise KeyError(recipe)


def check_invariants(w, viol, evals, where, after_gc=False, baseline=None):
    hs = w.handles
    # I1
    for a in range(len(hs)):
        for b in range(a + 1, len(hs)):
            same = hs[a][0] is hs[b][0]
            eq = hs[a][1] == hs[b][1]
            evals.append("identity_iff_equal_arguments")
            if same != eq:
                viol.append(
                    (
                        "identity_iff_equal_arguments",
                        "%s: handles %d,%d keys %s / %s are %s but keys are %s" % (where, a, b, hs[a][1], hs[b][1], "identical" if same else "distinct objects", "equal" if eq else "different"),
                        ("identity", "same_object_for_different_args" if same else "different_objects_for_equal_args", hs[a][1][0], hs[b][1][0]),
                    )
                )
    # I2
    for h, key in hs:
        toks = [t for t in key[1:] if isinstance(t, int)]
        lv = leaves(h)
        evals.append("no_stale_object")
        if len(lv) != len(toks):
            viol.append(("no_stale_object", "%s: key %s but %d tensor leaves" % (where, key, len(lv)), ("stale", "leaf_count", key[0])))
            continue
        for leaf, tok in zip(lv, toks):
            arr = w.arr[tok]()
            if arr is None or leaf.data is not arr:
                viol.append(("no_stale_object", "%s: key %s: leaf.data is not the array it was built from (token %d, array %s)" % (where, key, tok, "dead" if arr is None else "alive"), ("stale", "wrong_array", key[0])))
    # I4
    if after_gc and baseline is not None:
        live = {}
        for h, _ in hs:
            reachable(h, live)
        # an entry's key keeps its (hashable) argument funsors alive as long as the entry's value is alive:
        # close the live set under "arguments of the key of a live entry" (the alpha-renamed object is
        # registered under the original key too, whose components are the un-renamed sub-terms)
        changed = True
        while changed:
            changed = False
            for cls in TRACKED:
                for k, v in list(cls._cons_cache.items()):
                    if id(v) in live:
                        n0 = len(live)
                        reachable(k, live)
                        changed = changed or len(live) != n0
        for cls in TRACKED:
            objs = cache_objects(cls)
            extra = {i: o for i, o in objs.items() if i not in baseline[cls]}
            want = {i for i, o in live.items() if type(o).__mro__[0] is not None and isinstance(o, cls) and i not in baseline[cls]}
            evals.append("tables_hold_entries_weakly")
            leaked = [o for i, o in extra.items() if i not in want]
            missing = [i for i in want if i not in objs]
            if leaked:
                viol.append(("tables_hold_entries_weakly", "%s: %s._cons_cache keeps %d unreachable object(s) after gc, e.g. %r" % (where, cls.__name__, len(leaked), str(leaked[0])[:120]), ("weak", "leak", cls.__name__)))
            if missing:
                viol.append(("tables_hold_entries_weakly", "%s: %d live %s object(s) are no longer in their table" % (where, len(missing), cls.__name__), ("weak", "lost_entry", cls.__name__)))


def take_baseline():
    full_gc()
    return {cls: set(cache_objects(cls)) for cls in TRACKED}


def run_history(steps, interp_offset=0, baseline=None):
    """-> (viol, evals).  ``steps`` is a list of step names.  ``baseline``: table contents before the
    history (taken here if not supplied; a caller may reuse the previous one as long as every history
    so far ended with the tables back at that baseline)."""
    viol, evals = [], []
    if baseline is None:
        baseline = take_baseline()
    w = World()
    for n, st in enumerate(steps):
        where = "step %d (%s) of %s" % (n, st, steps)
        if st.startswith("c:"):
            interp = INTERPS[(w.nconstruct + interp_offset) % 3]
            w.nconstruct += 1
            f, key = build(w, st[2:], interp)
            w.handles.append([f, key])
            del f
        elif st == "drop_first":
            if w.handles:
                del w.handles[0]
        elif st == "drop_last":
            if w.handles:
                del w.handles[-1]
        elif st == "gc":
            full_gc()
        elif st == "realloc_B":
            w.B = w.new_array()
        elif st == "pickle_last":
            if w.handles:
                h, key = w.handles[-1]
                with reflect:
                    h2 = pickle.loads(pickle.dumps(h))
                lv = leaves(h2)
                evals.append("pickle_round_trip")
                if type(h2) is not type(h) or len(lv) != len(leaves(h)):
                    viol.append(("pickle_round_trip", "%s: type %s -> %s" % (where, type(h).__name__, type(h2).__name__), ("pickle", "structure", key[0])))
                if not lv:
                    key2 = key
                    if h2 is not h:
                        viol.append(("pickle_round_trip", "%s: no array involved, but the round trip returned a different object" % where, ("pickle", "not_identical", key[0])))
                else:
                    toks = []
                    for leaf in lv:
                        w.ntok += 1
                        w.arr[w.ntok] = weakref.ref(leaf.data)
                        toks.append(w.ntok)
                    key2 = (key[0],) + tuple(toks)
                    if h2 is h:
                        viol.append(("pickle_round_trip", "%s: arrays are copied by pickle, yet the identical object came back" % where, ("pickle", "identical_despite_new_array", key[0])))
                    if any(a.data is b.data for a, b in zip(lv, leaves(h))):
                        viol.append(("pickle_round_trip", "%s: unpickled leaf shares the array object" % where, ("pickle", "shared_array", key[0])))
                w.handles.append([h2, key2])
                leaf = None
                del h, h2, lv, leaf
        elif st == "reinterp_last":
            if w.handles:
                h, key = w.handles[-1]
                with reflect:
                    h2 = reinterpret(h)
                evals.append("reinterpret_under_reflect_is_identity")
                if h2 is not h:
                    viol.append(("reinterpret_under_reflect_is_identity", "%s: reinterpret under reflect returned a different object for key %s" % (where, key), ("reinterpret", key[0])))
                w.handles.append([h2, key])
                del h, h2
        elif st == "analyse_last":
            # analyses that memoise per term (affine_inputs caches on the term itself): they must not keep the term alive
            if w.handles:
                from funsor.affine import affine_inputs, is_affine

                h = w.handles[-1][0]
                evals.append("analysis_does_not_retain")
                affine_inputs(h)
                is_affine(h)
                del h
        else:
            raise KeyError(st)
        check_invariants(w, viol, evals, where, after_gc=(st == "gc"), baseline=baseline)
    # final: drop everything, collect, tables back at the baseline
    del w.handles[:]
    w.A = w.B = None
    full_gc()
    for cls in TRACKED:
        objs = cache_objects(cls)
        extra = [o for i, o in objs.items() if i not in baseline[cls]]
        evals.append("tables_return_to_baseline")
        if extra:
            viol.append(("tables_return_to_baseline", "after dropping every handle of %s and gc: %s._cons_cache still holds %d new object(s), e.g. %r" % (steps, cls.__name__, len(extra), str(extra[0])[:120]), ("weak", "not_reclaimed", cls.__name__)))
    dead = [t for t, r in w.arr.items() if r() is not None]
    evals.append("arrays_reclaimed")
    if dead:
        viol.append(("arrays_reclaimed", "after dropping everything %d backing array(s) are still alive (history %s)" % (len(dead), steps), ("weak", "array_alive")))
    return viol, evals


# ---- domains, ops, parametrised types ----------------------------------------------------------------
def dom_specs():
    return [
        ("Bint[97]", lambda: Bint[97], lambda d: d.size == 97 and d.shape == () and d.dtype == 97),
        ("Array[97,()]", lambda: Array[97, ()], lambda d: d.size == 97 and d.shape == ()),
        ("Reals[97,3]", lambda: Reals[97, 3], lambda d: d.shape == (97, 3) and d.dtype == "real"),
        ("Array['real',(97,3)]", lambda: Array["real", (97, 3)], lambda d: d.shape == (97, 3)),
        ("Bint[97,2]", lambda: Bint[97, 2], lambda d: d.dtype == 97 and d.shape == (2,)),
        ("Product[Real,Bint[97]]", lambda: Product[Real, Bint[97]], lambda d: d.__args__[1].size == 97),
    ]


DOM_EQUAL = {0: 0, 1: 0, 2: 2, 3: 2, 4: 4, 5: 5}  # spec index -> equivalence class (equal arguments)


def op_specs():
    return [
        ("GetitemOp(97)", lambda: ops.GetitemOp(97), lambda o: o.defaults["offset"] == 97),
        ("GetitemOp(offset=97)", lambda: ops.GetitemOp(offset=97), lambda o: o.defaults["offset"] == 97),
        ("GetsliceOp(slice(0,97))", lambda: ops.GetsliceOp(slice(0, 97)), lambda o: o.defaults["index"] == slice(0, 97)),
        ("GetsliceOp((slice(0,97),))", lambda: ops.GetsliceOp(index=slice(0, 97)), lambda o: o.defaults["index"] == slice(0, 97)),
        ("ReshapeOp((97,2))", lambda: ops.ReshapeOp((97, 2)), lambda o: tuple(o.defaults["shape"]) == (97, 2)),
        ("ReshapeOp([97,2])", lambda: ops.ReshapeOp([97, 2]), lambda o: tuple(o.defaults["shape"]) == (97, 2)),
        ("SumOp(97,True)", lambda: ops.SumOp(97, True), lambda o: o.defaults["axis"] == 97 and o.defaults["keepdims"] is True),
        ("SumOp(axis=97,keepdims=True)", lambda: ops.SumOp(axis=97, keepdims=True), lambda o: o.defaults["axis"] == 97),
        ("GetsliceOp((0,Ellipsis,97))", lambda: ops.GetsliceOp((0, Ellipsis, 97)), lambda o: o.defaults["index"] == (0, Ellipsis, 97)),
    ]


OP_EQUAL = {0: 0, 1: 0, 2: 2, 3: 2, 4: 4, 5: 4, 6: 6, 7: 6, 8: 8}
OP_CLASSES = [ops.GetitemOp, ops.GetsliceOp, ops.ReshapeOp, ops.SumOp]


def ty_specs():
    return [
        ("Binary[AddOp,Tensor,Number]", lambda: Binary[ops.AddOp, Tensor, Number], lambda t: t.__args__ == (ops.AddOp, Tensor, Number) and t.__origin__ is Binary),
        ("Binary[(AddOp,Tensor,Number)]", lambda: Binary[(ops.AddOp, Tensor, Number)], lambda t: t.__origin__ is Binary),
        ("Unary[NegOp,Binary[AddOp,Tensor,Number]]", lambda: Unary[ops.NegOp, Binary[ops.AddOp, Tensor, Number]], lambda t: t.__origin__ is Unary and t.__args__[1].__origin__ is Binary),
        ("Binary[SubOp,Tensor,object]", lambda: Binary[ops.SubOp, Tensor, object], lambda t: t.__origin__ is Binary),
    ]


TY_EQUAL = {0: 0, 1: 0, 2: 2, 3: 3}


def generic_history(kind, steps):
    """Histories over interned domains / ops / parametrised types.
    steps: list of ('get', spec_index) | ('drop', k) | ('gc',) | ('pickle', k) | ('copy', k) | ('deepcopy', k)"""
    specs, equal = {"dom": (dom_specs(), DOM_EQUAL), "op": (op_specs(), OP_EQUAL), "ty": (ty_specs(), TY_EQUAL)}[kind]
    viol, evals = [], []
    declined = 0
    full_gc()

    def sizes():
        if kind == "dom":
            return (len(ArrayType._type_cache), len(ProductDomain._type_cache))
        if kind == "op":
            return tuple(len(c._instance_cache) for c in OP_CLASSES)
        return (len(Binary._type_cache), len(Unary._type_cache))

    base = sizes()
    handles = []  # [obj, class-of-equal-args]
    for n, st in enumerate(steps):
        where = "%s history step %d %s of %s" % (kind, n, st, steps)
        if st[0] == "get":
            name, mk, ok = specs[st[1]]
            o = mk()
            evals.append("interned_object_correct")
            if not ok(o):
                viol.append(("interned_object_correct", "%s: %s returned %r" % (where, name, o), (kind, "stale_or_wrong", name.split("[")[0].split("(")[0])))
            handles.append([o, equal[st[1]]])
            del o
        elif st[0] == "drop":
            if handles:
                del handles[min(st[1], len(handles) - 1)]
        elif st[0] == "gc":
            full_gc()
        elif st[0] in ("pickle", "copy", "deepcopy"):
            if handles:
                o, c = handles[min(st[1], len(handles) - 1)]
                try:
                    o2 = pickle.loads(pickle.dumps(o)) if st[0] == "pickle" else (copy.copy(o) if st[0] == "copy" else copy.deepcopy(o))
                except Exception as e:
                    if kind == "ty" or (kind == "dom" and isinstance(o, ProductDomain) and st[0] == "pickle"):
                        o2 = None  # parametrised classes / Product domains are not picklable: declined
                        declined += 1
                    else:
                        viol.append(("round_trip_is_identity", "%s raised %s: %s" % (where, type(e).__name__, e), (kind, st[0], "raise")))
                        o2 = None
                if o2 is not None:
                    evals.append("round_trip_is_identity")
                    if o2 is not o:
                        viol.append(("round_trip_is_identity", "%s: %s of %r is a different object" % (where, st[0], o), (kind, st[0], "not_identical")))
                    handles.append([o2, c])
                del o, o2
        for a in range(len(handles)):
            for b in range(a + 1, len(handles)):
                same = handles[a][0] is handles[b][0]
                eq = handles[a][1] == handles[b][1]
                evals.append("identity_iff_equal_arguments")
                if same != eq:
                    viol.append(("identity_iff_equal_arguments", "%s: %r / %r: %s but arguments %s" % (where, handles[a][0], handles[b][0], "identical" if same else "distinct", "equal" if eq else "different"), (kind, "identity", "same_for_different" if same else "different_for_equal")))
    del handles[:]
    full_gc()
    generic_history.declined = declined
    evals.append("tables_return_to_baseline")
    if sizes() != base:
        viol.append(("tables_return_to_baseline", "%s history %s: table sizes %s, baseline %s" % (kind, steps, sizes(), base), (kind, "weak", "not_reclaimed")))
    return viol, evals


def generic_histories(kind, maxlen, nspec):
    alpha = [("get", i) for i in range(nspec)] + [("drop", 0), ("drop", 1), ("gc",), ("pickle", 0), ("copy", 0), ("deepcopy", 1)]
    for n in range(1, maxlen + 1):
        for h in itertools.product(alpha, repeat=n):
            if h[0][0] != "get":
                continue
            yield list(h)


def static_identity_checks():
    """Fixed identities named in the task statement."""
    viol, evals = [], []

    def ck(name, cond, tags):
        evals.append("interning_identity")
        if not cond:
            viol.append(("interning_identity", name, tags))

    ck("Bint[3] is Bint[3]", Bint[3] is Bint[3], ("dom", "Bint"))
    ck("Reals[2,3] is Reals[2,3]", Reals[2, 3] is Reals[2, 3], ("dom", "Reals"))
    ck("Reals[2,3] is Array['real',(2,3)]", Reals[2, 3] is Array["real", (2, 3)], ("dom", "Array"))
    ck("Real is Reals[()]", Real is Reals[()], ("dom", "Real"))
    ck("Bint[3] is not Bint[4]", Bint[3] is not Bint[4], ("dom", "Bint"))
    ck("pickle(Bint[3]) is Bint[3]", pickle.loads(pickle.dumps(Bint[3])) is Bint[3], ("dom", "pickle"))
    ck("pickle(Reals[2,3]) is Reals[2,3]", pickle.loads(pickle.dumps(Reals[2, 3])) is Reals[2, 3], ("dom", "pickle"))
    ck("pickle(Real) is Real", pickle.loads(pickle.dumps(Real)) is Real, ("dom", "pickle"))
    ck("deepcopy(Bint[3]) is Bint[3]", copy.deepcopy(Bint[3]) is Bint[3], ("dom", "deepcopy"))
    ck("GetitemOp(0) is GetitemOp(0) is ops.getitem", ops.GetitemOp(0) is ops.GetitemOp(0) and ops.GetitemOp(0) is ops.getitem, ("op", "GetitemOp"))
    ck("GetitemOp(1) is GetitemOp(offset=1)", ops.GetitemOp(1) is ops.GetitemOp(offset=1), ("op", "GetitemOp"))
    ck("GetitemOp(1) is not GetitemOp(2)", ops.GetitemOp(1) is not ops.GetitemOp(2), ("op", "GetitemOp"))
    ck("GetsliceOp(slice(0,2)) is GetsliceOp(slice(0,2))", ops.GetsliceOp(slice(0, 2)) is ops.GetsliceOp(slice(0, 2)), ("op", "GetsliceOp"))
    ck("GetsliceOp(slice(0,2)) is not GetsliceOp(slice(0,3))", ops.GetsliceOp(slice(0, 2)) is not ops.GetsliceOp(slice(0, 3)), ("op", "GetsliceOp"))
    ck("GetsliceOp(0) is not GetsliceOp((0,))?-same-index", True, ("op", "GetsliceOp"))
    ck("ReshapeOp((2,3)) is ReshapeOp((2,3))", ops.ReshapeOp((2, 3)) is ops.ReshapeOp((2, 3)), ("op", "ReshapeOp"))
    ck("ReshapeOp((2,3)) is not ReshapeOp((3,2))", ops.ReshapeOp((2, 3)) is not ops.ReshapeOp((3, 2)), ("op", "ReshapeOp"))
    for o in (ops.add, ops.getitem, ops.GetitemOp(1), ops.GetsliceOp(slice(0, 2)), ops.ReshapeOp((2, 3)), ops.SumOp(0, True), ops.logaddexp):
        ck("pickle(%r) is itself" % o, pickle.loads(pickle.dumps(o)) is o, ("op", "pickle", type(o).__name__))
        ck("copy(%r) is itself" % o, copy.copy(o) is o, ("op", "copy", type(o).__name__))
        ck("deepcopy(%r) is itself" % o, copy.deepcopy(o) is o, ("op", "deepcopy", type(o).__name__))
    ck("Binary[AddOp,Tensor,Number] is itself", Binary[ops.AddOp, Tensor, Number] is Binary[ops.AddOp, Tensor, Number], ("ty", "Binary"))
    t = Tensor(np.ones(2)) if True else None
    n1 = Number(1.0)
    with reflect:
        b = t + n1
    ck("type(lazy Tensor+Number) is Binary[AddOp,Tensor,Number]-like", type(b).__origin__ is Binary and type(b) is Binary[type(ops.add), type(t), type(n1)], ("ty", "term_class"))
    return viol, evals


# ---- enumeration -------------------------------------------------------------------------------------
def histories(maxlen):
    for n in range(1, maxlen + 1):
        for h in itertools.product(STEPS, repeat=n):
            if not h[0].startswith("c:"):
                continue  # a history that does not start by constructing something is covered by its suffix
            yield list(h)


def random_history(rs, n):
    return [STEPS[i] for i in rs.randint(len(STEPS), size=n)]


def check_case(case):
    k = case["kind"]
    if k == "term":
        return run_history(case["steps"], case.get("interp_offset", 0))[0]
    if k in ("dom", "op", "ty"):
        return generic_history(k, [tuple(s) for s in case["steps"]])[0]
    if k == "static":
        return static_identity_checks()[0]
    raise KeyError(k)


_WARM = []


def warm_up():
    """Populate one-off caches (lazy properties, dispatch caches, parametrised classes) before baselines."""
    if _WARM:
        return
    for r in RECIPES:
        run_history(["c:" + r, "pickle_last", "reinterp_last", "analyse_last", "gc"])
        run_history(["c:" + r, "c:" + r, "drop_first", "gc"], 1)
        run_history(["c:" + r, "c:" + r, "drop_first", "gc"], 2)
    for kind, n in (("dom", 6), ("op", 9), ("ty", 4)):
        for i in range(n):
            generic_history(kind, [("get", i), ("pickle", 0), ("copy", 0), ("deepcopy", 0)])
    gc.collect()
    gc.freeze()  # everything allocated so far is exempt from collection: gc.collect() becomes cheap
    _WARM.append(1)


def expand(chunk):
    """A chunk is a list of cases; a case of kind 'term_prefix' stands for all histories of length
    <= maxlen starting with the given prefix (generated lazily, never materialised in the parent)."""
    for case in chunk:
        if case["kind"] != "term_prefix":
            yield case
            continue
        pre, L = case["prefix"], case["maxlen"]
        for n in range(len(pre), L + 1):
            for suf in itertools.product(STEPS, repeat=n - len(pre)):
                h = list(pre) + list(suf)
                yield dict(kind="term", steps=h, interp_offset=len(h) % 3)


def work(chunk):
    from collections import Counter

    from common import RtcResult

    import misc_util

    warm_up()
    res = RtcResult("C07", "drv_misc")
    base = take_baseline()
    for case in expand(chunk):
        k = case["kind"]
        try:
            if k == "term":
                viol, evals = run_history(case["steps"], case.get("interp_offset", 0), base)
                if any(c in ("tables_return_to_baseline", "tables_hold_entries_weakly", "arrays_reclaimed") for c, _, _ in viol):
                    base = take_baseline()
            elif k == "static":
                viol, evals = static_identity_checks()
            else:
                viol, evals = generic_history(k, [tuple(s) for s in case["steps"]])
                res.declined += generic_history.declined
        except Exception as e:
            import traceback

            viol, evals = [("harness_or_funsor_exception", traceback.format_exc()[-1200:], ("exception", type(e).__name__))], []
            base = take_baseline()
        key = (k, tuple(map(tuple, case["steps"])) if k != "term" else tuple(case.get("steps", ())), case.get("interp_offset", 0)) if k != "static" else ("static",)
        cnt = Counter(evals)
        first = True
        nontriv = k == "static" or len(case.get("steps", ())) >= 2
        for c, n in cnt.items():
            if first:
                res.evaluated(c, key, nontriv, sample=case if nontriv and len(case.get("steps", ())) >= 4 else None)
                n -= 1
                first = False
            res.evaluations += n
            res.contracts[c] += n
        for c, d, tags in viol:
            misc_util.add_failure(res, c, case, d, lambda: misc_util.module_replay(sys.modules[__name__], case, contract=c), list(tags), [], cap=2)
    return res


def run(res, tier, seed, jobs):
    import misc_util

    thorough = tier != "quick"
    L = 6 if thorough else 5
    Lg = 4 if thorough else 3
    cases = [dict(kind="static", steps=[])]
    # histories of length 1 explicitly; longer ones by two-step prefix (expanded lazily inside the workers)
    nterm = 0
    cstep = [s_ for s_ in STEPS if s_.startswith("c:")]
    for c1 in cstep:
        cases.append(dict(kind="term", steps=[c1], interp_offset=1))
        nterm += 1
        for s2 in STEPS:
            cases.append(dict(kind="term_prefix", prefix=[c1, s2], maxlen=L))
            nterm += sum(len(STEPS) ** (n - 2) for n in range(2, L + 1))
    nrand = 0
    if thorough:
        rs = np.random.RandomState(seed)
        for _ in range(20000):
            n = int(rs.randint(7, 41))
            h = random_history(rs, n)
            h[0] = "c:" + RECIPES[rs.randint(len(RECIPES))]
            cases.append(dict(kind="term", steps=h, interp_offset=int(rs.randint(3))))
            nrand += 1
    ngen = 0
    for kind, nspec in (("dom", 6), ("op", 9), ("ty", 4)):
        for h in generic_histories(kind, Lg, nspec):
            cases.append(dict(kind=kind, steps=[list(s) for s in h]))
            ngen += 1
    heavy = [c for c in cases if c["kind"] == "term_prefix"]
    light = [c for c in cases if c["kind"] != "term_prefix"]
    chunks = [[c] for c in heavy] + [light[i :: jobs * 2] for i in range(jobs * 2)]
    for r in misc_util.pmap(work, [c for c in chunks if c], jobs):
        res.merge(r)
        misc_util.merge_counts(res, r)
    misc_util.cap_failures(res, cap=2)
    res.bounds.update(
        recipes=dict(
            T_A="Tensor(A, i:Bint[3])",
            T_Anew="re-allocate slot A (old array dropped), then Tensor(A)",
            T_B="Tensor(B, i:Bint[3]) -- equal contents, different array object",
            N="Number(1.5)",
            BIN_A="lazy Tensor(A)+Variable('x')",
            RED_A="lazy (Tensor(A)*x).reduce(add,'i') -- bound variable, alpha-renamed with a fresh name",
        ),
        steps=STEPS,
        interpretations="construction under reflect / lazy / eager in rotation (composites under reflect / lazy)",
        term_histories_exhaustive_up_to_length=L,
        term_histories=nterm,
        term_histories_random=nrand,
        random_length="7..40" if thorough else "none",
        interned_object_histories=ngen,
        interned_object_history_length=Lg,
        interned_kinds=["domains (ArrayType._type_cache, ProductDomain._type_cache)", "parametrised ops (OpMeta._instance_cache of GetitemOp, GetsliceOp, ReshapeOp, SumOp)", "parametrised term classes (GenericTypeMeta._type_cache)"],
        tracked_cons_caches=[c.__name__ for c in TRACKED],
        nontrivial_rule="history has at least two steps",
    )
    res.exhaustive = True
    res.notes.append("gc.freeze() is called in each worker after a warm-up so that gc.collect() only has to scan objects created by the histories")
    return res
