import sys; sys.path.insert(0,'/repo')
import numpy as np
from collections import OrderedDict
from funsor.terms import Variable, to_funsor
from funsor.domains import Bint, Real
from funsor.tensor import Tensor
from funsor.interpretations import lazy
f = to_funsor(np.float64(1.5), Real)
print(type(f), f.inputs, f.output)
t=np.arange(8.).reshape(4,2)
with lazy:
    x = Tensor(t, OrderedDict(k=Bint[4], j=Bint[2]))(k=Variable("i", Bint[3]) + Variable("j", Bint[2]))
print(type(x).__name__, x.inputs)
try:
    m = Tensor(np.zeros(())).materialize(x)
    print(m)
except AssertionError as e:
    import traceback; traceback.print_exc()
# eager directly
y = Tensor(t, OrderedDict(k=Bint[4], j=Bint[2]))(k=Variable("i", Bint[3]) + Variable("j", Bint[2]))
print(type(y).__name__, y.inputs)
