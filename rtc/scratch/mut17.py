import sys; sys.path.insert(0,'/verif/rtc')
import misc_c17 as m
from funsor.interpretations import Interpretation
import funsor.interpreter as FI
orig = Interpretation.__exit__
def bad_exit(self, *args):
    if args and args[0] is not None and self is m.user:
        return  # leak on exception for partial
    FI.pop_interpretation()
Interpretation.__exit__ = bad_exit
res = m.work([([[[]]], ['lazy','user'], False), ([[[]]], ['user','lazy'], False)])
print(len(res.failures), res.evaluations)
f = res.failures[0]
print(f['contract'], f['tags'], f['detail'][:300])
open('/verif/rtc/scratch/replay17.py','w').write(f['replay_src'])
Interpretation.__exit__ = orig
# mutant 2: partial does not fall through
