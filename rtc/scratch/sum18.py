import sys, json, collections
sys.path.insert(0,'/verif/rtc')
import drv_misc, time
t=time.time()
r = drv_misc.run(sys.argv[1], sys.argv[2] if len(sys.argv)>2 else "quick", 0)
print('wall', round(time.time()-t,1), 'evals', r.evaluations, 'declined', r.declined, 'failures', len(r.failures))
c = collections.Counter((f['contract'], tuple(t for t in f['tags'])) for f in r.failures)
by = collections.defaultdict(list)
for f in r.failures: by[f['contract']].append(f)
for k, fs in by.items():
    print('==', k, len(fs))
    tagc = collections.Counter(t for f in fs for t in f['tags'])
    print('   tags', tagc.most_common(30))
    fs.sort(key=lambda f: len(json.dumps(f['case'])))
    for f in fs[:int(sys.argv[3]) if len(sys.argv)>3 else 3]:
        print('   ', json.dumps(f['case']), '\n      ', f['detail'][:700].replace('\n','\n       '))
