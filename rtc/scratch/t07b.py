import sys, gc; sys.path.insert(0,'/repo')
import numpy as np
from collections import OrderedDict
import funsor
from funsor import ops
from funsor.domains import Bint, Real, Reals, Product, ArrayType, ProductDomain
from funsor.terms import Variable, Binary, Unary, Number
from funsor.tensor import Tensor
from funsor.interpretations import lazy, reflect
def refs(o, depth=0):
    for r in gc.get_referrers(o):
        if r is sys._getframe() or isinstance(r, type(sys._getframe())): continue
        print('   '*depth, type(r).__name__, str(r)[:150].replace('\n',' '))
# (a) Product
gc.collect()
print(len(ArrayType._type_cache))
p = Product[Real, Bint[97]]
del p; gc.collect()
print(len(ArrayType._type_cache), len(ProductDomain._type_cache))
b = [v for v in ArrayType._type_cache.values() if getattr(v,'dtype',None)==97]
print(b); 
if b: refs(b[0])
# (b) nested type
gc.collect(); n0=len(Binary._type_cache)
u = Unary[ops.NegOp, Binary[ops.AddOp, Tensor, Number]]
del u; gc.collect(); print(n0, len(Binary._type_cache))
# (c) RED_A
A = np.array([1.,2.,3.])
x = Variable('x', Real)
gc.collect(); t0 = len(Tensor._cons_cache); b0 = len(Binary._cons_cache)
with lazy:
    r = (Tensor(A, OrderedDict(i=Bint[3])) * x).reduce(ops.add, 'i')
gc.collect()
print('tensor cache', t0, len(Tensor._cons_cache), 'binary', b0, len(Binary._cons_cache))
for v in Tensor._cons_cache.values():
    if v.data is A: print(v.inputs); 
un = [v for v in Tensor._cons_cache.values() if v.data is A and 'i' in v.inputs]
if un:
    print('referrers of unmangled tensor'); refs(un[0])
    for rr in gc.get_referrers(un[0]):
        if isinstance(rr, tuple):
            print(' tuple referrers:'); refs(rr, 1)
