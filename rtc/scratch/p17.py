import sys; sys.path.insert(0,'/repo')
import numpy as np
from collections import OrderedDict
import funsor
from funsor import ops
from funsor.terms import Variable, Number, Binary, Reduce
from funsor.domains import Real, Bint, Reals
from funsor.tensor import Tensor
from funsor.interpretations import eager, lazy, reflect, normalize, sequential, moment_matching, memoize
from funsor.gaussian import Gaussian
import funsor.interpreter as I
print(I._STACK)
t = Tensor(np.array([1.,2.,3.]), OrderedDict(i=Bint[3]))
x = Variable('x', Real)
with lazy:
    lz = x * t
g = Gaussian(mean=np.array([[0.],[1.],[2.]]), precision=np.ones((3,1,1)), inputs=OrderedDict(i=Bint[3], y=Real))
def sig(v):
    return type(v).__name__ + (":" + type(v).__mro__[0].__name__ if 0 else "")
def probes():
    out = []
    out.append(sig(Number(1.) + Number(2.)))
    out.append(sig(x + 1))
    out.append(sig(t.reduce(ops.add, 'i')))
    out.append(sig(lz.reduce(ops.add, 'i')))
    out.append(sig((t+g).reduce(ops.logaddexp, 'i')))
    out.append(sig(x(x=Number(2.))))
    out.append(sig(Number(2.)+x+Number(3.)))
    return out
for n, it in [('eager',eager),('lazy',lazy),('reflect',reflect),('normalize',normalize),('sequential',sequential),('mm',moment_matching)]:
    with it:
        print(n, probes())
def struct(v, d=0):
    from funsor.terms import Funsor
    if isinstance(v, Funsor):
        kids = [struct(a, d+1) for a in v._ast_values if isinstance(a,(Funsor,tuple))]
        return type(v).__name__ + ("(" + ",".join(k for k in kids if k) + ")" if any(kids) else "")
    if isinstance(v, tuple):
        return ",".join(struct(a,d+1) for a in v if isinstance(a,(Funsor,tuple)))
    return ""
for n, it in [('eager',eager),('lazy',lazy),('reflect',reflect),('normalize',normalize),('sequential',sequential),('mm',moment_matching)]:
    with it:
        print(n, struct(lz.reduce(ops.add, 'i')), '|', struct((t+g).reduce(ops.logaddexp, 'i')))
