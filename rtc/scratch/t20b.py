import sys, time, traceback, warnings; sys.path.insert(0,'/verif/rtc')
import misc_c20 as m
import numpy as np
warnings.simplefilter("ignore")
# which programs decline under which mode, and why
g = m.FrameGuard(); L = m.Leaves(0, False, g)
for name, fn in m.PROGRAMS:
    for mode in m.MODES:
        try:
            with np.errstate(all='ignore'):
                m.run_mode(fn, L, mode)
        except Exception as e:
            print('DECL', name, mode, type(e).__name__, str(e)[:90].replace('\n',' '))
for ro in (False, True):
    t=time.time()
    v, e, d, n = m.run_pass(0, ro)
    print('readonly', ro, 'time', round(time.time()-t,1), 'programs', n, 'declined', d, 'viol', len(v), 'held', m.run_pass.held)
    for c, det, tags in v: print('  ', c, tags, det[:1500])
