import sys, time; sys.path.insert(0,'/verif/rtc')
import misc_c17 as m
ws = list(m.words("quick"))
import random, cProfile, pstats
random.seed(0)
sub = random.sample(ws, 30)
cProfile.run('m.work([(s,l,"quick") for s,l in sub])', '/verif/rtc/scratch/prof')
pstats.Stats('/verif/rtc/scratch/prof').sort_stats('cumtime').print_stats(25)
