import sys, time; sys.path.insert(0,'/verif/rtc')
import misc_c19 as m
from collections import Counter
cs = m.cases("quick", 0)
print(len(cs), Counter(c['kind'] for c in cs))
import random
random.seed(1)
for kind in m.KINDS:
    sub = [c for c in cs if c['kind']==kind]
    sub = random.sample(sub, min(300, len(sub)))
    t=time.time()
    r = m.work(sub)
    print(kind, len(sub), 'time', round(time.time()-t,2), 'eval', r.evaluations, 'decl', r.declined, 'fail', len(r.failures))
    seen=set()
    for f in r.failures:
        k=(f['contract'],tuple(f['tags']))
        if k in seen: continue
        seen.add(k); print('   ', f['contract'], f['tags'], f['case'], f['detail'][:600])
