import sys; sys.path.insert(0,'/repo')
import numpy as np
from collections import OrderedDict
import funsor
from funsor import ops
from funsor.terms import Variable, Number, Stack, Cat, Lambda, Independent, Slice, to_data, to_funsor
from funsor.domains import Bint, Real, Reals
from funsor.tensor import Tensor
from funsor.gaussian import Gaussian
from funsor.delta import Delta
from funsor.interpretations import eager, lazy, normalize, memoize, moment_matching, reflect
from funsor.interpreter import reinterpret
from funsor.optimizer import apply_optimizer
from funsor.sum_product import sum_product, sequential_sum_product, naive_sequential_sum_product, partial_sum_product
from funsor.adjoint import adjoint
from funsor.integrate import Integrate
from funsor.einsum import einsum
from funsor.compiler import compile_funsor
rs = np.random.RandomState(0)
def T(shape, names, sizes): return Tensor(rs.randn(*shape), OrderedDict(zip(names, [Bint[s] for s in sizes])))
t_i = T((3,), 'i', (3,)); t_ij = T((3,2), 'ij', (3,2)); t_j=T((2,),'j',(2,))
def tryit(name, f):
    try:
        r = f(); print('OK ', name, type(r).__name__ if not isinstance(r,(tuple,dict)) else type(r).__name__)
    except Exception as e:
        print('ERR', name, type(e).__name__, str(e)[:100])
probs = Tensor(np.log(np.array([[.2,.8],[.5,.5],[.9,.1]])), OrderedDict(i=Bint[3], j=Bint[2]))
tryit('sample', lambda: probs.sample(frozenset({'j'})))
tryit('sample inputs', lambda: probs.sample(frozenset({'j'}), OrderedDict(p=Bint[4])))
g1 = Gaussian(mean=rs.randn(3,3), precision=np.broadcast_to(np.eye(3)*2, (3,3,3)).copy(), inputs=OrderedDict(i=Bint[3], x=Real, y=Reals[2]))
g2 = Gaussian(mean=rs.randn(1), precision=np.eye(1)*1.5, inputs=OrderedDict(x=Real))
tryit('g sample', lambda: g1.sample(frozenset({'x','y'})))
tryit('g marg', lambda: g1.reduce(ops.logaddexp, 'x'))
tryit('g+g', lambda: g1+g2)
tryit('g subs', lambda: g1(x=0.5))
tryit('g subs i', lambda: g1(i=1))
tryit('mm', lambda: moment_matching(lambda: (g1 + t_i).reduce(ops.logaddexp, 'i'))())
tryit('lognorm', lambda: g1.log_normalizer)
d = Delta('x', Tensor(rs.randn(3), OrderedDict(i=Bint[3])), Tensor(rs.randn(3), OrderedDict(i=Bint[3])))
tryit('d+g', lambda: (d+g2).reduce(ops.logaddexp,'x'))
tryit('d subs', lambda: d(x=0.3))
tryit('integrate', lambda: Integrate(g2, Variable('x',Real)*2.0, 'x'))
tryit('integrate d', lambda: Integrate(d, Variable('x',Real)*2.0, 'x'))
trans = Tensor(rs.randn(4,2,2), OrderedDict(time=Bint[4], prev=Bint[2], curr=Bint[2]))
tryit('ssp', lambda: sequential_sum_product(ops.logaddexp, ops.add, trans, Variable('time',Bint[4]), {'prev':'curr'}))
tryit('nssp', lambda: naive_sequential_sum_product(ops.logaddexp, ops.add, trans, Variable('time',Bint[4]), {'prev':'curr'}))
tryit('sp', lambda: sum_product(ops.logaddexp, ops.add, [t_i, t_ij, t_j], frozenset('ij'), frozenset()))
tryit('sp plate', lambda: sum_product(ops.logaddexp, ops.add, [t_i, t_ij], frozenset('ij'), frozenset('j')))
tryit('psp', lambda: partial_sum_product(ops.logaddexp, ops.add, [t_i, t_ij], frozenset('i'), frozenset('j')))
def adj():
    with lazy: e = (t_i + t_ij).reduce(ops.logaddexp, frozenset({'i','j'}))
    return adjoint(ops.logaddexp, ops.add, e)
tryit('adjoint', adj)
def opt():
    with lazy: e = (t_i + t_ij + t_j).reduce(ops.logaddexp, frozenset({'i','j'}))
    return reinterpret(apply_optimizer(e))
tryit('optimizer', opt)
tryit('einsum', lambda: einsum("a,ab->b", t_i.exp(), t_ij.exp()))
from funsor.sum_product import sum_product
tryit('einsum log', lambda: einsum("a,ab->b", t_i, t_ij, backend='funsor.einsum.numpy_log'))
tryit('stack', lambda: Stack('k',(t_i,t_i*2)))
tryit('cat', lambda: Cat('i',(t_i,t_i)))
tryit('lambda', lambda: Lambda(Variable('i',Bint[3]), t_ij))
tryit('indep', lambda: Independent(Tensor(rs.randn(3,2), OrderedDict(i=Bint[3]))(**{}) if False else g2(x='x_i') , 'x','i','x_i'))
tryit('materialize', lambda: t_i.materialize(Variable('k',Bint[3])*2))
tryit('mean', lambda: t_ij.reduce(ops.mean,'i'))
tryit('var', lambda: t_ij.reduce(ops.var,'i'))
tryit('argmax?', lambda: Tensor(rs.randn(3,4), OrderedDict(i=Bint[3])).argmax(0) if hasattr(Tensor,'argmax') else None)
tryit('fb', lambda: __import__('funsor.sum_product',fromlist=['x']).forward_backward if hasattr(__import__('funsor.sum_product',fromlist=['x']),'forward_backward') else None)
tryit('scatter', lambda: t_ij(i=Tensor(np.array([0,2]), OrderedDict(k=Bint[2]), 3)))
tryit('approx', lambda: g2.approximate(ops.logaddexp, g2, 'x'))
