import sys; sys.path.insert(0,'/verif/rtc')
import misc_c07 as m
import collections, numpy as np
from funsor.interpretations import Interpretation, reflect
from funsor.tensor import Tensor
m.warm_up()
which = sys.argv[1]
if which == 'strong':
    class D(dict): pass
    Tensor._cons_cache = D()
elif which == 'content':
    orig = Interpretation.make_hash_key
    def mk(cls, *args):
        return tuple(a.tobytes() if isinstance(a, np.ndarray) else (id(a) if not isinstance(a, collections.abc.Hashable) else a) for a in args)
    reflect.make_hash_key = mk
allv=[]
for h in m.histories(3):
    v,e = m.run_history(h, len(h)%3); allv+=v
print(which, len(allv), collections.Counter((c,t) for c,d,t in allv).most_common(6))
