import sys; sys.path.insert(0,'/repo')
import numpy as np, pickle
from collections import OrderedDict
import funsor
from funsor import ops
from funsor.terms import Variable, Number, Binary, Unary, Tuple
from funsor.domains import Bint, Real, Reals
from funsor.tensor import Tensor
from funsor.interpretations import lazy, reflect, normalize, eager
from funsor.compiler import compile_funsor
x = Variable('x', Reals[3]); y = Variable('y', Reals[3]); a = Variable('a', Reals[3,3]); i = Variable('i', Bint[3]); s = Variable('s', Real)
c = Tensor(np.array([1.,2.,3.]))
data = dict(x=np.array([.5,1.5,2.]), y=np.array([1.,2.,.25]), a=np.arange(9.).reshape(3,3)+1, i=np.array(1), s=np.array(0.75))
def show(name, e):
    print('---', name, type(e).__name__, dict(e.inputs), e.output)
    try:
        p = compile_funsor(e)
    except Exception as ex:
        print('   compile raised', type(ex).__name__, ex); return
    d = {k: data[k] for k in e.inputs}
    try:
        r = p(**d); print('   program', r)
    except Exception as ex:
        print('   program raised', type(ex).__name__, ex)
    try:
        v = e(**d); print('   subs', type(v).__name__, getattr(v,'data',None))
    except Exception as ex:
        print('   subs raised', type(ex).__name__, ex)
    code = p.as_code()
    print('   ', code.replace('\n','\n    '))
    try:
        env={}; exec(code, None, env); print('   code', env['program'](**d))
    except Exception as ex:
        print('   code raised', type(ex).__name__, ex)
    try:
        p2 = pickle.loads(pickle.dumps(p)); print('   pickle', p2(**d))
    except Exception as ex:
        print('   pickle raised', type(ex).__name__, ex)
with lazy:
    show('x[0]', x[0])
    show('x[i]', x[i])
    show('x-y', x - y)
    show('a@x', a @ x)
    show('x+c', x + c)
    show('x.sum()', x.sum())
    show('x/2', x / 2.0)
    show('2/x', 2.0 / x)
    show('tuple', Tuple((x, x*y)))
    show('reshape', x.reshape((3,1)))
    show('a[0:2]', a[0:2])
    show('i+1', i + 1)
    show('s*i', s * i)
    show('x.sum(0)', a.sum(0))
show('eager x+y+1', x + y + 1)
show('eager x*c', x * c - y)
