import sys, time; sys.path.insert(0,'/verif/rtc')
import misc_c07 as m, cProfile, pstats, itertools
m.warm_up()
hs = list(itertools.islice(m.histories(4), 3000, 4500))
cProfile.run('for h in hs: m.run_history(h, 1)', '/verif/rtc/scratch/prof07')
pstats.Stats('/verif/rtc/scratch/prof07').sort_stats('tottime').print_stats(14)
