import sys; sys.path.insert(0,'/repo')
import numpy as np, pickle
from funsor import ops
from funsor.ops.tracer import trace_function
a = np.arange(6.).reshape(2,3)+1
def f1(a): return ops.sum(a, axis=0)
def f2(a): return ops.sum(a, 0)
def f3(a): return ops.mul(ops.sum(a, 0, keepdims=True), 2.0)
for f in (f1,f2,f3):
    p = trace_function(f, dict(a=a))
    print(f.__name__, f(a=a), p(a=a), p.operations)
    print(p.as_code())
