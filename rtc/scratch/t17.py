import sys, time; sys.path.insert(0,'/verif/rtc')
import misc_c17 as m
print(m.TABLE_FULL)
ws = list(m.words("quick"))
print(len(ws))
import random
random.seed(0)
sub = random.sample(ws, 60)
t=time.time()
cnt, d, f, n = m.work([(s,l,"quick") for s,l in sub])
print(time.time()-t, n, sum(cnt.values()), len(f))
for x in f[:5]: print(x)
