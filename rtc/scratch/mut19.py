import sys; sys.path.insert(0,'/verif/rtc')
import misc_c19 as m
import funsor.tensor as T
orig = T.ops.permute
import numpy as np
def bad_permute(x, dims):
    dims = tuple(dims)
    if len(dims) >= 3 and dims[:3] == (2,0,1):
        dims = (1,2,0) + dims[3:]
    return orig(x, dims)
class O:  # proxy
    def __getattr__(self, k): return bad_permute if k=='permute' else getattr(T_ops, k)
T_ops = T.ops
T.ops = O()
cs = [c for c in m.cases("quick",0) if c['kind'] in ('align_tensor','to_data','align_gaussian')]
r = m.work(cs)
print(r.evaluations, len(r.failures), {(f['contract'],tuple(f['tags'])) for f in r.failures})
open('scratch/replay19.py','w').write(r.failures[0]['replay_src'])
