import sys; sys.path.insert(0,'/repo')
import numpy as np
from collections import OrderedDict
from funsor.terms import Variable
from funsor.domains import Bint
from funsor.tensor import Tensor
from funsor.interpretations import lazy
t=np.arange(10.).reshape(5,2)
with lazy:
    k = Variable("i", Bint[3]) + Variable("j", Bint[2])
    print(k.output, k.inputs)
    x = Tensor(t, OrderedDict(k=Bint[5], j=Bint[2]))(k=k)
