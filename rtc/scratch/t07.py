import sys, time; sys.path.insert(0,'/verif/rtc')
import misc_c07 as m
m.warm_up()
import collections
v, e = m.static_identity_checks(); print('static', len(e), v)
for h in (["c:T_A","c:T_A","c:T_B","drop_first","gc","c:T_Anew","pickle_last","reinterp_last","gc"], ["c:RED_A","c:RED_A","reinterp_last","pickle_last","gc","drop_first","gc"], ["c:BIN_A","c:T_A","c:N","c:N","pickle_last","gc"]):
    v, e = m.run_history(h, 0); print(h, len(e), v[:3])
t=time.time(); n=0; allv=[]
for h in m.histories(3):
    v,e = m.run_history(h, len(h)%3); n+=1; allv+=v
print(n, time.time()-t, len(allv), collections.Counter((c,t) for c,d,t in allv).most_common(8))
for c,d,t in allv[:3]: print(c,t,d[:300])
for kind,ns in (("dom",6),("op",9),("ty",4)):
    t=time.time(); n=0; allv=[]
    for h in m.generic_histories(kind, 3, ns):
        v,e = m.generic_history(kind, h); n+=1; allv+=v
    print(kind, n, time.time()-t, len(allv), collections.Counter((c,t) for c,d,t in allv).most_common(8))
    for c,d,t in allv[:3]: print(c,t,d[:300])
