import sys, warnings; sys.path.insert(0,'/verif/rtc')
import misc_c20 as m
import numpy as np
from funsor import ops
warnings.simplefilter("ignore")
def bad_exp(x):
    if x.dtype == float and x.ndim:
        return np.exp(x, out=x)
    return np.exp(x)
ops.exp.register(np.ndarray)(bad_exp)
type(ops.exp).dispatcher._cache.clear()
for ro in (False, True):
    v, e, d, n = m.run_pass(0, ro)
    print('readonly', ro, 'declined', d, 'viol', len(v))
    for c, det, tags in v[:3]: print('  ', c, tags, det[:400].replace('\n',' | '))
