"""C20: terms and the arrays behind them are never mutated (run-time frame contract).

A workload of small programs is executed under several interpretations.  ``FrameGuard`` holds every
driver-owned leaf array, every leaf funsor and every funsor produced so far; it is verified after each
program and at the end (pass 1).  Pass 2 repeats the workload with ``flags.writeable = False`` on all
driver-owned arrays: a write through a view then raises ``ValueError: ... read-only`` at the offending
line, which is reported with the innermost funsor frame of the traceback.
"""
import hashlib
import sys
import traceback
import warnings

sys.path.insert(0, __import__("os").environ.get("VERIF_REPO", "/repo"))
sys.path.insert(0, "/verif/rtc")
from collections import OrderedDict  # noqa: E402

import numpy as np  # noqa: E402

import funsor  # noqa: E402
from funsor import ops  # noqa: E402
from funsor.adjoint import adjoint  # noqa: E402
from funsor.cnf import Contraction  # noqa: E402
from funsor.compiler import compile_funsor  # noqa: E402
from funsor.delta import Delta  # noqa: E402
from funsor.domains import Bint, Real, Reals  # noqa: E402
from funsor.einsum import einsum  # noqa: E402
from funsor.gaussian import Gaussian  # noqa: E402
from funsor.integrate import Integrate  # noqa: E402
from funsor.interpretations import eager, lazy, memoize, moment_matching, normalize, reflect, sequential  # noqa: E402
from funsor.interpreter import reinterpret  # noqa: E402
from funsor.optimizer import apply_optimizer  # noqa: E402
from funsor.sum_product import naive_sequential_sum_product, partial_sum_product, sequential_sum_product, sum_product  # noqa: E402
from funsor.tensor import Tensor  # noqa: E402
from funsor.terms import Cat, Funsor, Lambda, Number, Slice, Stack, Tuple, Variable, to_data, to_funsor  # noqa: E402

funsor.set_backend("numpy")

try:  # the shared guard of the framework
    from common import FrameGuard, array_digest, funsor_digest
except ImportError:  # stand-alone replay: same definitions, inlined

    def array_digest(a):
        a = np.asarray(a)
        return hashlib.sha256(np.ascontiguousarray(a).tobytes() + str((a.shape, a.dtype)).encode()).hexdigest()

    def funsor_digest(f):
        seen = {}

        def go(x):
            if isinstance(x, Funsor):
                if id(x) in seen:
                    return seen[id(x)]
                seen[id(x)] = ("cycle",)
                r = (type(x).__name__, tuple((k, str(v)) for k, v in x.inputs.items()), str(x.output), tuple(go(v) for v in x._ast_values))
                seen[id(x)] = r
                return r
            if isinstance(x, np.ndarray):
                return ("nd", array_digest(x))
            if isinstance(x, (tuple, list)):
                return tuple(go(v) for v in x)
            if isinstance(x, dict):
                return tuple((str(k), go(v)) for k, v in x.items())
            if isinstance(x, frozenset):
                return tuple(sorted(str(go(v)) for v in x))
            return repr(x) if isinstance(x, (int, float, str, bool, type(None))) else type(x).__name__ + ":" + str(x)

        return hashlib.sha256(repr(go(f)).encode()).hexdigest()

    class FrameGuard:
        def __init__(self):
            self.items = []

        def hold(self, obj, label=""):
            d = funsor_digest(obj) if isinstance(obj, Funsor) else array_digest(obj)
            self.items.append((obj, d, label))
            return obj

        def violated(self):
            bad = []
            for obj, d, label in self.items:
                d2 = funsor_digest(obj) if isinstance(obj, Funsor) else array_digest(obj)
                if d2 != d:
                    bad.append(label or type(obj).__name__)
            return bad


class Leaves:
    """Driver-owned arrays and the leaf funsors built on them."""

    def __init__(self, seed, readonly, guard):
        rs = np.random.RandomState(seed)
        self.arrays = {}
        self.guard = guard
        self.readonly = readonly

        def arr(name, a):
            a = np.array(a)
            if readonly:
                a.flags.writeable = False
            self.arrays[name] = a
            guard.hold(a, "array:" + name)
            return a

        def fun(name, f):
            setattr(self, name, f)
            guard.hold(f, "leaf:" + name)
            return f

        B = lambda **kw: OrderedDict((k, Bint[v]) for k, v in kw.items())  # noqa: E731
        fun("t_i", Tensor(arr("t_i", rs.randn(3)), B(i=3)))
        fun("t_j", Tensor(arr("t_j", rs.randn(2)), B(j=2)))
        fun("t_ij", Tensor(arr("t_ij", rs.randn(3, 2)), B(i=3, j=2)))
        fun("t_ji", Tensor(arr("t_ji", rs.randn(2, 3)), B(j=2, i=3)))
        fun("t_ijk", Tensor(arr("t_ijk", rs.randn(3, 2, 2)), B(i=3, j=2, k=2)))
        fun("t_pos", Tensor(arr("t_pos", rs.uniform(0.5, 2.0, (3, 2))), B(i=3, j=2)))
        fun("t_v", Tensor(arr("t_v", rs.randn(3, 2)), B(i=3)))  # output Reals[2]
        fun("t_m", Tensor(arr("t_m", rs.randn(3, 2, 2)), B(i=3)))  # output Reals[2,2]
        fun("t_idx", Tensor(arr("t_idx", np.array([2, 0])), B(j=2), 3))  # Bint[3]-valued index
        fun("t_bool", Tensor(arr("t_bool", np.array([True, False, True])), B(i=3), 2))
        p = rs.uniform(0.1, 1.0, (3, 2))
        fun("logp", Tensor(arr("logp", np.log(p / p.sum(-1, keepdims=True))), B(i=3, j=2)))
        fun("t_a", Tensor(arr("t_a", rs.randn(3)), B(a=3)))
        fun("t_ab", Tensor(arr("t_ab", rs.randn(3, 2)), B(a=3, b=2)))
        fun("trans", Tensor(arr("trans", rs.randn(4, 2, 2)), B(time=4, prev=2, curr=2)))
        fun("n", Number(1.5))
        fun("x", Variable("x", Real))
        fun("y", Variable("y", Reals[2]))
        fun("vi", Variable("i", Bint[3]))
        prec = rs.randn(3, 3, 3) * 0.2 + np.eye(3) * 1.5
        prec_sqrt = arr("g1_prec_sqrt", prec)
        fun("g1", Gaussian(arr("g1_white", rs.randn(3, 3)), prec_sqrt, OrderedDict(i=Bint[3], x=Real, y=Reals[2])))
        fun("g2", Gaussian(arr("g2_white", rs.randn(1)), arr("g2_prec_sqrt", np.array([[1.3]])), OrderedDict(x=Real)))
        fun("g3", Gaussian(arr("g3_white", rs.randn(2, 1)), arr("g3_prec_sqrt", rs.uniform(0.8, 1.5, (2, 1, 1))), OrderedDict(j=Bint[2], x=Real)))
        fun("d", Delta("x", Tensor(arr("d_point", rs.randn(3)), B(i=3)), Tensor(arr("d_logd", rs.randn(3)), B(i=3))))
        fun("pt", Tensor(arr("pt", np.array(0.3))))
        self.raw = arr("raw", rs.randn(3, 1, 2))
        self.raw_int = arr("raw_int", np.array([[0, 2], [1, 1], [2, 0]]))


PROGRAMS = []


def program(fn):
    PROGRAMS.append((fn.__name__, fn))
    return fn


# ---- construction / arithmetic --------------------------------------------------------------------
@program
def bin_add(L):
    return L.t_i + L.t_ij


@program
def bin_mul_perm(L):
    return L.t_ij * L.t_ji


@program
def bin_sub_div(L):
    return (L.t_ij - L.t_j) / L.t_pos


@program
def bin_pow_max(L):
    return ops.max(L.t_pos**2, L.t_ij)


@program
def bin_logaddexp(L):
    return ops.logaddexp(L.t_i, L.t_ijk)


@program
def bin_compare_bool(L):
    return (L.t_i < L.t_ij) & L.t_bool


@program
def bin_number(L):
    return (L.t_ij + L.n) * 2.0 - 1


@program
def bin_inplace_syntax(L):
    r = L.t_ij
    r += L.t_i
    r *= L.t_j
    r -= 1.0
    r /= 2.0
    return r


@program
def unary_chain(L):
    return (-L.t_ij).exp().log().abs() + L.t_pos.sqrt() + L.t_ij.sigmoid() + L.t_pos.log()


@program
def unary_event(L):
    return L.t_v.sum() + L.t_m.sum() + L.t_v[0] + L.t_m[1, 0]


@program
def matmul_event(L):
    return L.t_m @ L.t_v


@program
def getitem_var(L):
    return L.t_v[Variable("q", Bint[2])]


@program
def with_free_variable(L):
    return (L.x * L.t_i + L.t_ij).reduce(ops.add, "i")


# ---- reduction ----------------------------------------------------------------------------------------
@program
def reduce_add(L):
    return L.t_ijk.reduce(ops.add, "j")


@program
def reduce_logaddexp_all(L):
    return L.t_ijk.reduce(ops.logaddexp)


@program
def reduce_max_min_mul(L):
    return L.t_ij.reduce(ops.max, "i") + L.t_ij.reduce(ops.min, "j").reduce(ops.add, "i") + L.t_pos.reduce(ops.mul, frozenset({"i", "j"}))


@program
def reduce_mean_var_std(L):
    return L.t_ij.reduce(ops.mean, "i") + L.t_ij.reduce(ops.var, "i") + L.t_ij.reduce(ops.std, "i")


@program
def reduce_bool(L):
    return L.t_bool.reduce(ops.or_, "i"), L.t_bool.reduce(ops.and_, "i")


@program
def reduce_unrelated(L):
    return L.t_i.reduce(ops.add, frozenset({Variable("j", Bint[2])}))


# ---- substitution ---------------------------------------------------------------------------------------
@program
def subs_int(L):
    return L.t_ijk(i=0, k=1)


@program
def subs_tensor_index(L):
    return L.t_ij(i=L.t_idx)


@program
def subs_rename(L):
    return L.t_ij(i="m", j="i")


@program
def subs_slice(L):
    return L.t_ijk(i=Slice("s", 0, 3, 2, 3))


@program
def subs_diag(L):
    return L.t_ijk(j="k")


@program
def subs_variable_arith(L):
    return L.t_i(i=Variable("a", Bint[2]) + Variable("b", Bint[2]))


@program
def subs_into_lazy(L):
    with lazy:
        e = L.x * L.t_i + L.y.sum()
    return e(x=L.pt, y=L.t_v)


# ---- structure ---------------------------------------------------------------------------------------------
@program
def stack_cat(L):
    return Stack("s", (L.t_i, L.t_i * 2)), Cat("i", (L.t_i, L.t_i, L.t_ij))


@program
def lambda_independent(L):
    lam = Lambda(L.vi, L.t_ij)
    return lam, lam[L.vi], lam.sum()


@program
def tuple_term(L):
    return Tuple((L.t_i, L.t_ij, L.n))


@program
def align_programs(L):
    return L.t_ijk.align(("k", "i", "j")), L.g1.align(("y", "x", "i")), L.t_ij.align(("j", "i"))


@program
def materialize_arange(L):
    return L.t_i.materialize(Variable("k", Bint[3]) * 2), L.t_i.new_arange("r", 1, 7, 2), L.t_ij.materialize(Slice("s", 0, 5, 2, 5))


# ---- conversion ---------------------------------------------------------------------------------------------
@program
def to_data_to_funsor(L):
    f = to_funsor(L.raw, Reals[2], {-2: "u", -1: "w"})
    back = to_data(f, {"u": -2, "w": -1})
    f2 = to_funsor(L.raw_int, Bint[3], {-2: "r", -1: "c"})
    return f, f2, Tensor(back), to_data(L.t_ij, {"i": -3, "j": -1}).shape


@program
def to_data_lazy_roundtrip(L):
    d = to_data(L.t_ijk.align(("j", "k", "i")), {"i": -1, "j": -2, "k": -3})
    return to_funsor(d, Real, {-1: "i", -2: "j", -3: "k"})


@program
def item_and_python_protocols(L):
    return float(L.t_i(i=1)), bool((L.t_i(i=1) < 5.0)), len(L.t_v), [t for t in L.t_v(i=0)], repr(L.t_ij)[:10], str(L.g2)[:10]


# ---- sampling -------------------------------------------------------------------------------------------------
@program
def sample_tensor(L):
    np.random.seed(0)
    return L.logp.sample(frozenset({"j"})), L.logp.sample(frozenset({"j"}), OrderedDict(particle=Bint[4]))


@program
def sample_tensor_joint(L):
    # every subset of the inputs sampled jointly, including the layouts where the aligned logits are the term's own array
    np.random.seed(3)
    out = []
    for t in (L.logp, L.t_ijk, L.t_ji):
        names = list(t.inputs)
        for m in range(1, 2 ** len(names)):
            sv = frozenset(n for b, n in enumerate(names) if m >> b & 1)
            out.append(t.sample(sv))
            out.append(t.sample(sv, OrderedDict(particle=Bint[2])))
    return tuple(out)


@program
def sample_gaussian(L):
    np.random.seed(1)
    return L.g1.sample(frozenset({"x", "y"})), L.g2.sample(frozenset({"x"}), OrderedDict(particle=Bint[3]))


@program
def sample_joint(L):
    np.random.seed(2)
    return (L.g3 + L.t_j).sample(frozenset({"x", "j"}))


# ---- gaussian / delta -------------------------------------------------------------------------------------------
@program
def gaussian_product_marginal(L):
    return (L.g1 + L.g2).reduce(ops.logaddexp, "x"), L.g1.reduce(ops.logaddexp, frozenset({"x", "y"}))


@program
def gaussian_subs(L):
    return L.g1(x=L.pt), L.g1(i=1), L.g1(i=L.t_idx), L.g1(y=L.t_v), L.g1(x="z")


@program
def gaussian_affine_subs(L):
    return L.g2(x=Variable("z", Real) * 2.0 + 1.0)


@program
def gaussian_mixture(L):
    return (L.g1 + L.t_i).reduce(ops.logaddexp, "i"), (L.g3 + L.t_j).reduce(ops.logaddexp, frozenset({"j", "x"}))


@program
def gaussian_moment_matching(L):
    with moment_matching:
        return (L.g3 + L.t_j).reduce(ops.logaddexp, "j")


@program
def gaussian_properties(L):
    return L.g1.log_normalizer, Tensor(L.g1._mean, OrderedDict(i=Bint[3])), Tensor(L.g1._precision, OrderedDict(i=Bint[3])), Tensor(L.g1._covariance, OrderedDict(i=Bint[3]))


@program
def gaussian_scale_negate(L):
    return L.g2 + L.g2, L.g1 - L.g1.log_normalizer, L.g3 + L.t_ij


@program
def delta_ops(L):
    return L.d(x=L.pt), (L.d + L.g2).reduce(ops.logaddexp, "x"), (L.d + L.t_i).reduce(ops.logaddexp, frozenset({"x", "i"})), L.d(i=2)


@program
def integrate_programs(L):
    return Integrate(L.g2, L.x * 2.0 + 1.0, "x"), Integrate(L.d, L.x * L.x, "x"), Integrate(L.logp, L.t_ij, "j")


@program
def approximate_programs(L):
    return L.g2.approximate(ops.logaddexp, L.g2, "x"), L.logp.approximate(ops.logaddexp, L.logp, "j")


# ---- algorithms ----------------------------------------------------------------------------------------------------
@program
def sum_product_programs(L):
    return (
        sum_product(ops.logaddexp, ops.add, [L.t_i, L.t_ij, L.t_j], frozenset("ij"), frozenset()),
        sum_product(ops.logaddexp, ops.add, [L.t_i, L.t_ij], frozenset("ij"), frozenset("j")),
        sum_product(ops.add, ops.mul, [L.t_pos, L.t_ijk], frozenset("ijk"), frozenset("k")),
    )


@program
def partial_sum_product_program(L):
    return tuple(partial_sum_product(ops.logaddexp, ops.add, [L.t_i, L.t_ij, L.t_ijk], frozenset("i"), frozenset("jk")))


@program
def sequential_sum_product_programs(L):
    t = Variable("time", Bint[4])
    return (
        sequential_sum_product(ops.logaddexp, ops.add, L.trans, t, {"prev": "curr"}),
        naive_sequential_sum_product(ops.logaddexp, ops.add, L.trans, t, {"prev": "curr"}),
        sequential_sum_product(ops.add, ops.mul, L.trans.exp(), t, {"prev": "curr"}),
    )


@program
def optimizer_program(L):
    with lazy:
        e = (L.t_i + L.t_ij + L.t_ijk + L.t_j).reduce(ops.logaddexp, frozenset({"i", "j", "k"}))
    o = apply_optimizer(e)
    return o, reinterpret(o)


@program
def adjoint_program(L):
    with lazy:
        e = (L.t_i + L.t_ij + L.t_j).reduce(ops.logaddexp, frozenset({"i", "j"}))
    r = adjoint(ops.logaddexp, ops.add, e)
    return tuple(r.values())


@program
def adjoint_sum_prod_program(L):
    with lazy:
        e = (L.t_pos * L.t_ijk.exp()).reduce(ops.add, frozenset({"i", "j", "k"}))
    return tuple(adjoint(ops.add, ops.mul, e).values())


@program
def einsum_programs(L):
    return einsum("a,ab->b", L.t_a.exp(), L.t_ab.exp()), einsum("a,ab->", L.t_a, L.t_ab, backend="funsor.einsum.numpy_log"), einsum("a,ab->b", L.t_a, L.t_ab, backend="funsor.einsum.numpy_map")


@program
def compile_program(L):
    with lazy:
        e = (L.y * L.t_v(i=1)).sum() - L.x / 2.0
    prog = compile_funsor(e)
    xv, yv = np.array(0.7), np.array([1.0, -2.0])
    return Tensor(np.asarray(prog(x=xv, y=yv))), e(x=xv, y=yv)


@program
def reinterpret_program(L):
    with reflect:
        e = (L.t_i * L.t_ij).reduce(ops.add, "i") + L.t_j
    with normalize:
        n = reinterpret(e)
    return e, n, reinterpret(n), reinterpret(e)


@program
def sequential_interp_program(L):
    with sequential:
        return (L.x * L.t_i).reduce(ops.add, "i")


@program
def contraction_direct(L):
    return Contraction(ops.add, ops.mul, frozenset({L.vi}), L.t_pos, L.t_ijk), Contraction(ops.logaddexp, ops.add, frozenset({L.vi}), L.t_i, L.g1)


MODES = ["eager", "lazy+reinterpret", "normalize+reinterpret", "memoize"]


def flatten(r, acc):
    if isinstance(r, Funsor):
        acc.append(r)
    elif isinstance(r, (tuple, list)):
        for x in r:
            flatten(x, acc)
    elif isinstance(r, dict):
        for x in r.values():
            flatten(x, acc)
    return acc


def run_mode(fn, L, mode):
    if mode == "eager":
        return fn(L)
    if mode == "lazy+reinterpret":
        with lazy:
            r = fn(L)
        fs = flatten(r, [])
        return r, [reinterpret(f) for f in fs]
    if mode == "normalize+reinterpret":
        with normalize:
            r = fn(L)
        fs = flatten(r, [])
        return r, [reinterpret(f) for f in fs]
    if mode == "memoize":
        with memoize():
            r1 = fn(L)
            r2 = fn(L)
        return r1, r2
    raise KeyError(mode)


def funsor_frame(tb_text):
    best = ""
    lines = tb_text.splitlines()
    for i, ln in enumerate(lines):
        if "/repo/funsor/" in ln and ln.strip().startswith("File"):
            best = ln.strip() + (" :: " + lines[i + 1].strip() if i + 1 < len(lines) else "")
    return best


def run_pass(seed, readonly, only=None):
    """-> (viol, evals(list of (contract, key)), declined, nprog).  ``only``: optional list of (program, mode)."""
    warnings.simplefilter("ignore")
    guard = FrameGuard()
    L = Leaves(seed, readonly, guard)
    viol, evals = [], []
    declined = 0
    nprog = 0
    already = set()
    with np.errstate(all="ignore"):
        for name, fn in PROGRAMS:
            for mode in MODES:
                if only is not None and [name, mode] not in only and (name, mode) not in only:
                    continue
                nprog += 1
                result = None
                if readonly:
                    evals.append(("no_write_through_views", (name, mode, readonly)))
                try:
                    result = run_mode(fn, L, mode)
                except ValueError as e:
                    tb = traceback.format_exc()
                    if "read-only" in str(e):
                        viol.append(("no_write_through_views", "program %s under %s wrote into a driver-owned (read-only) array: %s\n%s\n%s" % (name, mode, e, funsor_frame(tb), tb[-900:]), ("write", "read_only", name, mode, funsor_frame(tb).split(",")[0][-40:])))
                    else:
                        declined += 1
                except Exception:
                    declined += 1
                # frame condition after the program (also after a raise: a half-done write counts)
                bad = [b for b in guard.violated() if b not in already]
                evals.append(("operands_unchanged_after_program", (name, mode, readonly)))
                if bad:
                    already.update(bad)
                    viol.append(("operands_unchanged_after_program", "after program %s under %s the following held objects changed: %s" % (name, mode, bad[:8]), ("mutated", name, mode) + tuple(sorted({b.split(":")[0] for b in bad}))))
                for k, f in enumerate(flatten(result, [])):
                    try:
                        guard.hold(f, "result:%s/%s#%d" % (name, mode, k))
                    except Exception:
                        pass
    bad = [b for b in guard.violated() if b not in already]
    evals.append(("held_objects_unchanged_at_end", (readonly, len(guard.items))))
    if bad:
        viol.append(("held_objects_unchanged_at_end", "at the end of the run these held objects differ from their snapshot: %s" % bad[:8], ("mutated", "end")))
    # driver-owned arrays must still be flagged read-only in pass 2 (nobody flipped the flag)
    if readonly:
        evals.append(("readonly_flag_untouched", (len(L.arrays),)))
        flipped = [k for k, a in L.arrays.items() if a.flags.writeable]
        if flipped:
            viol.append(("readonly_flag_untouched", "writeable flag was re-enabled on %s" % flipped, ("write", "flag")))
    run_pass.held = len(guard.items)
    return viol, evals, declined, nprog


def check_case(case):
    return run_pass(case.get("seed", 0), case["readonly"], case.get("only"))[0]


def work(case):
    from common import RtcResult

    import misc_util

    res = RtcResult("C20", "drv_misc")
    viol, evals, declined, nprog = run_pass(case["seed"], case["readonly"])
    res.declined += declined
    for c, key in evals:
        res.evaluated(c, (c, key, case["seed"]), True, sample=dict(contract=c, case=key) if len(res.samples) < 4 else None)
    for c, d, tags in viol:
        # replay only the failing program (all programs before it are not needed: leaves are rebuilt from the seed)
        only = [[tags[1], tags[2]]] if tags[0] == "mutated" and len(tags) >= 3 and tags[1] != "end" else ([[tags[2], tags[3]]] if tags[0] == "write" and len(tags) >= 4 else None)
        rc = dict(case, only=only)
        misc_util.add_failure(res, c, rc, d, lambda: misc_util.module_replay(sys.modules[__name__], rc, contract=c), list(tags), [], cap=3)
    res.bounds["programs_run_%s_seed%d" % ("readonly" if case["readonly"] else "writeable", case["seed"])] = nprog
    res.bounds["held_objects_%s_seed%d" % ("readonly" if case["readonly"] else "writeable", case["seed"])] = run_pass.held
    return res


def run(res, tier, seed, jobs):
    import misc_util

    seeds = [seed, seed + 1] if tier == "quick" else [seed + k for k in range(8)]
    cases = [dict(seed=s, readonly=ro) for s in seeds for ro in (False, True)]
    for r in misc_util.pmap(work, cases, jobs):
        res.merge(r)
        misc_util.merge_counts(res, r)
    misc_util.cap_failures(res, cap=3)
    res.bounds.update(
        base_programs=len(PROGRAMS),
        modes=MODES,
        programs_per_pass=len(PROGRAMS) * len(MODES),
        program_names=[n for n, _ in PROGRAMS],
        passes=["writeable arrays + SHA-256 snapshots", "flags.writeable=False on every driver-owned array + snapshots"],
        leaf_seeds=seeds,
        nontrivial_rule="every program execution (one evaluation of the frame condition per program, plus one at the end of each pass)",
    )
    res.exhaustive = True
    res.notes.append("a program that raises for a reason other than a read-only write (unsupported pattern under that interpretation) is counted as declined; the frame condition is still checked after it")
    return res
