"""C17: interpretation contexts nest and unwind like a stack (bounded run-time contract).

Explicit stack model vs the real ``funsor.interpreter._STACK``.  A *word* is a labelled forest (a
well-nested enter/exit sequence); every node is realised as a with-block or as a decorator; an
exception may be injected right before the p-th enter/exit event and is caught either at the top or
just outside the innermost open context (after which execution continues with the siblings).

Oracle (independent of the code under test): a python list of model frames.  The meaning of each
total interpretation for the probe terms is tabulated once with single-level ``with T:`` blocks (the
property is about nesting, not about what one interpretation does); the expected probe signature at
any point is obtained from the model stack alone: walk down from the innermost frame, partial user
frames contribute their one rule, memoize / adjoint-tape frames are transparent, the first total
frame decides the rest.
"""
import itertools
import sys

sys.path.insert(0, __import__("os").environ.get("VERIF_REPO", "/repo"))
from collections import OrderedDict  # noqa: E402

import numpy as np  # noqa: E402

import funsor  # noqa: E402
import funsor.interpreter as FI  # noqa: E402
from funsor import ops  # noqa: E402
from funsor.adjoint import AdjointTape  # noqa: E402
from funsor.domains import Bint, Real  # noqa: E402
from funsor.gaussian import Gaussian  # noqa: E402
from funsor.interpretations import (  # noqa: E402
    DispatchedInterpretation,
    Memoize,
    PrioritizedInterpretation,
    eager,
    lazy,
    memoize,
    moment_matching,
    normalize,
    reflect,
    sequential,
)
from funsor.tensor import Tensor  # noqa: E402
from funsor.terms import Binary, Funsor, Number, Variable  # noqa: E402

funsor.set_backend("numpy")

TOTALS = OrderedDict(
    eager=eager, lazy=lazy, reflect=reflect, normalize=normalize, sequential=sequential, moment_matching=moment_matching
)
LABELS = list(TOTALS) + ["memoize", "user", "adjoint"]

# the user-defined partial interpretation: one rule, on a pattern no other probe can produce
user = DispatchedInterpretation("user_partial")


@user.register(Binary, ops.MaxOp, Number, Number)
def _user_rule(op, lhs, rhs):
    return Number(42.0)


class InjectE(Exception):
    pass


class InjectB(BaseException):
    pass


EXC = {"E": InjectE, "B": InjectB, "S": StopIteration}

# ---- probes -------------------------------------------------------------------------------------
_T = Tensor(np.array([1.0, 2.0, 3.0]), OrderedDict(i=Bint[3]))
_X = Variable("x", Real)
with lazy:
    _LZ = _X * _T
_G = Gaussian(
    mean=np.array([[0.0], [1.0], [2.0]]), precision=np.ones((3, 1, 1)), inputs=OrderedDict(i=Bint[3], y=Real)
)


def struct(v):
    """Top-level signature only: class, value of a Number, number of reduced variables.
    (Deliberately shallow: which *sub*-term object a cons-cache hit carries depends on the interpretation
    that first built it, because reflect alpha-renames bound variables by re-interpreting the body under
    the active interpretation; that is not a property of the stack.)"""
    s = type(v).__name__
    if isinstance(v, Number):
        s += "[%r]" % (float(v.data),)
    if hasattr(v, "reduced_vars"):
        s += "{%d}" % len(v.reduced_vars)
    return s


def sig(v):
    return struct(v) + "|" + ",".join(sorted(v.inputs))


def probe_user():
    return struct(Binary(ops.max, Number(1.0), Number(2.0)))


def probes_full():
    return (
        probe_user(),
        struct(_X + 1),
        sig(_LZ.reduce(ops.add, "i")),
        sig((_T + _G).reduce(ops.logaddexp, "i")),
        struct(_X(x=Number(2.0))),
    )


def probes_light():
    return (probe_user(), struct(_X(x=Number(2.0))))


def _table():
    full, light = {}, {}
    for name, it in TOTALS.items():
        with it:
            full[name] = probes_full()
            light[name] = probes_light()
    return full, light


assert FI._STACK == [reflect, eager] and FI._STACK[1] is eager, FI._STACK
TABLE_FULL, TABLE_LIGHT = _table()
# the probes must tell the six total interpretations apart, otherwise the contract is vacuous
assert len(set(TABLE_FULL.values())) == 6, TABLE_FULL
USER_SIG = "Number[42.0]"


def expected_sig(model_names, full):
    """Pure function of the model stack (list of labels, outermost first; bottom is implicit eager)."""
    userflag = False
    base = "eager"
    for name in reversed(model_names):
        if name == "user":
            userflag = True
        elif name in ("memoize", "adjoint"):
            continue
        else:
            base = name
            break
    row = (TABLE_FULL if full else TABLE_LIGHT)[base]
    if userflag:
        row = (USER_SIG,) + row[1:]
    return row


# ---- word enumeration -----------------------------------------------------------------------------
def forests(n):
    """All ordered forests with n nodes; a tree is the list of its child trees."""
    if n == 0:
        yield []
        return
    for k in range(1, n + 1):
        for first in forests(k - 1):
            for rest in forests(n - k):
                yield [first] + rest


def chain(n):
    f = []
    for _ in range(n):
        f = [f]
    return f


def depth(forest):
    return 0 if not forest else 1 + max(depth(t) for t in forest)


def count_nodes(forest):
    return sum(1 + count_nodes(t) for t in forest)


# ---- the checked executor -------------------------------------------------------------------------
class _Run:
    def __init__(self, case):
        self.case = case
        self.labels = list(case["labels"])
        self.mode = case["mode"]
        self.inject = case.get("inject")
        self.catch = case.get("catch", "top")
        self.exc = EXC[case.get("exc", "E")]
        self.probe_all = case.get("probe_all", self.inject is None)
        self.full = case.get("full", False)
        self.event = 0
        self.node = 0
        self.injected = False
        self.caught = False
        self.model = []  # frames: dict(name, cur)
        self.viol = []
        self.evals = []  # (contract, step)

    # -- checks
    def v(self, contract, detail, tags):
        self.viol.append((contract, "%s @event %d: %s" % (self.case, self.event, detail), tuple(tags)))

    def check_stack(self, where):
        st = FI._STACK
        self.evals.append(("base_never_popped", self.event))
        if len(st) < 2 or st[0] is not reflect or st[1] is not eager:
            self.v("base_never_popped", "%s: bottom of stack is %r" % (where, st[:2]), ["base"])
        self.evals.append(("stack_equals_model", self.event))
        if len(st) != 2 + len(self.model) or any(st[2 + i] is not fr["cur"] for i, fr in enumerate(self.model)):
            self.v(
                "stack_equals_model",
                "%s: real stack %r vs model %r" % (where, st, [fr["name"] for fr in self.model]),
                ["stack"] + [fr["name"] for fr in self.model[-1:]],
            )

    def check_probe(self, where):
        names = [fr["name"] for fr in self.model]
        want = expected_sig(names, self.full)
        self.evals.append(("probe_innermost_interprets", self.event))
        try:
            got = probes_full() if self.full else probes_light()
        except Exception as e:  # a probe that is fine under every single interpretation must not raise when nested
            got = ("raised %s: %s" % (type(e).__name__, str(e)[:200]),)
        if got != want:
            self.v(
                "probe_innermost_interprets",
                "%s: model %r expects %r, got %r" % (where, names, want, got),
                ["probe"] + names[-2:],
            )

    def maybe_inject(self):
        ev = self.event
        self.event += 1
        if self.inject is not None and ev == self.inject and not self.injected:
            self.injected = True
            raise self.exc("injected")

    def make_ctx(self, name):
        if name in TOTALS:
            return TOTALS[name], None
        if name == "memoize":
            return memoize(), None
        if name == "user":
            return user, user
        if name == "adjoint":
            t = AdjointTape()
            return t, t
        raise KeyError(name)

    def check_enter(self, name, obj, before):
        cur = FI.get_interpretation()
        self.evals.append(("enter_pushes_expected", self.event))
        ok = True
        if name in TOTALS:
            ok = cur is TOTALS[name]
        elif name == "memoize":
            ok = isinstance(cur, Memoize) and cur.base_interpretation is before and cur.is_total == before.is_total
        else:
            ok = (
                isinstance(cur, PrioritizedInterpretation)
                and len(cur.subinterpretations) == 1 + len(before.subinterpretations)
                and cur.subinterpretations[0] is obj
                and all(a is b for a, b in zip(cur.subinterpretations[1:], before.subinterpretations))
            )
            if name == "adjoint":
                ok = ok and obj._old_interpretation is before
        if not ok:
            self.v("enter_pushes_expected", "after entering %s over %r the active interpretation is %r" % (name, before, cur), ["enter", name])
        return cur

    def run_forest(self, forest, lvl):
        for tree in forest:
            self.run_node(tree, lvl)

    def run_node(self, tree, lvl):
        self.maybe_inject()  # position right before the enter event
        name = self.labels[self.node]
        self.node += 1
        before = FI.get_interpretation()
        depth_before = len(self.model)
        ctx, obj = self.make_ctx(name)
        entered = []

        def body():
            cur = self.check_enter(name, obj, before)
            self.model.append(dict(name=name, cur=cur))
            entered.append(1)
            self.check_stack("after enter " + name)
            if self.probe_all:
                self.check_probe("after enter " + name)
            self.run_forest(tree, lvl + 1)
            self.maybe_inject()  # position right before the exit event

        as_deco = self.mode == "deco" or (self.mode == "mixed" and lvl % 2 == 1)
        raised = None
        try:
            if as_deco:
                ctx(body)()
            else:
                with ctx:
                    body()
        except (InjectE, InjectB, StopIteration) as e:
            raised = e
        del self.model[depth_before:]
        # ---- postcondition of the matching exit
        self.evals.append(("exit_restores_previous", self.event))
        cur = FI.get_interpretation()
        if cur is not before:
            self.v(
                "exit_restores_previous",
                "after leaving %s (%s) active is %r, before the matching enter it was %r"
                % (name, "exception" if raised else "normal", cur, before),
                ["exit", name, "exception" if raised else "normal", "deco" if as_deco else "with"],
            )
        self.check_stack("after exit " + name)
        if self.probe_all or raised is not None:
            self.check_probe("after exit " + name)
        if raised is not None:
            if self.catch == "parent" and not self.caught:
                self.caught = True  # swallowed just outside the innermost open context; continue with siblings
            else:
                raise raised


def check_case(case):
    """Returns list of (contract, detail, tags); resets the real stack afterwards if it leaked."""
    r = _Run(case)
    base_ok = FI._STACK == [reflect, eager] and FI._STACK[1] is eager
    if not base_ok:
        del FI._STACK[:]
        FI._STACK.extend([reflect, eager])
    try:
        r.run_forest(case["shape"], 0)
    except (InjectE, InjectB, StopIteration):
        pass
    r.evals.append(("final_stack_is_base", r.event))
    st = FI._STACK
    if not (len(st) == 2 and st[0] is reflect and st[1] is eager and FI.get_interpretation() is eager):
        r.v("final_stack_is_base", "stack after the whole word: %r" % (st,), ["final"])
        del FI._STACK[:]
        FI._STACK.extend([reflect, eager])
    check_case.last_evals = r.evals
    return r.viol


def variants(shape, labels, reduced):
    """full (words with <=3 contexts): modes with/deco/mixed x every boundary x {E top, E parent, B top, S top};
    reduced (4 and 5 contexts): modes with/deco x every boundary x E top, with-mode also E parent; B/S only at the innermost body."""
    n = count_nodes(shape)
    modes = ["with", "deco"] + (["mixed"] if depth(shape) >= 2 and not reduced else [])
    for mode in modes:
        yield dict(shape=shape, labels=labels, mode=mode, inject=None, full=True)
        for p in range(1, 2 * n):
            if reduced == 2 and mode == "deco" and p != n:
                continue  # 4/5-context words in the thorough tier: decorators get the no-exception run and one injection
            yield dict(shape=shape, labels=labels, mode=mode, inject=p, catch="top", exc="E")
            if mode == "with" or not reduced:
                yield dict(shape=shape, labels=labels, mode=mode, inject=p, catch="parent", exc="E")
            if not reduced or (p == n and mode == "with"):
                for k in ("B", "S"):
                    yield dict(shape=shape, labels=labels, mode=mode, inject=p, catch="top", exc=k)


def words(tier):
    """Yields (shape, labels, reduced_variants)."""
    small = []
    for n in range(1, 4):
        small += list(forests(n))
    big = [chain(4)]
    level = 1
    if tier != "quick":
        big = [f for f in forests(4) if f != chain(4)] + [chain(5)]
        small.append(chain(4))
        level = 2
    for shape in small:
        for labels in itertools.product(LABELS, repeat=count_nodes(shape)):
            yield shape, list(labels), False
    for shape in big:
        for labels in itertools.product(LABELS, repeat=count_nodes(shape)):
            yield shape, list(labels), level


def bounds(tier):
    return dict(
        contexts=LABELS,
        words_full_variants="all labelled forests with <=3 contexts" + (" + all chains of depth 4" if tier != "quick" else ""),
        words_reduced_variants=("all labelled forests with 4 contexts + all chains of depth 5" if tier != "quick" else "all chains of depth 4"),
        full_variants="modes {with, deco, mixed(alternating by depth; words with <=3 contexts)} x (no exception + every event boundary 1..2n-1 x "
        "{Exception caught at top, Exception caught just outside the innermost open context then continue, "
        "BaseException at top, StopIteration at top})",
        reduced_variants="modes {with, deco} x (no exception + every boundary x Exception at top; with-mode also caught-by-parent; BaseException / StopIteration in the innermost body, with-mode)"
        + ("; thorough 4/5-context words: decorator mode = no-exception run + injection in the innermost body" if tier != "quick" else ""),
        probes_full=5,
        probes_after_exception=2,
        fresh_objects="memoize() and AdjointTape() are created per entry (an AdjointTape is not re-entered while active)",
        nontrivial_rule="word has >=2 contexts or an injected exception",
    )


def work(chunk):
    """chunk: list of (shape, labels, reduced); returns an RtcResult (needs /verif/rtc/common.py)."""
    from common import RtcResult

    res = RtcResult("C17", "drv_misc")
    for shape, labels, reduced in chunk:
        n = count_nodes(shape)
        for case in variants(shape, labels, reduced):
            viol = check_case(case)
            key = (repr(shape), tuple(labels), case["mode"], case.get("inject"), case.get("catch"), case.get("exc"))
            nontriv = n >= 2 or case.get("inject") is not None
            first = True
            for c, step in check_case.last_evals:
                if first:
                    res.evaluated(c, key, nontriv, sample=dict(case=case, contract=c) if n >= 3 and case.get("inject") else None)
                    first = False
                else:  # same run, further postconditions: counted, same case key
                    res.evaluations += 1
                    res.contracts[c] += 1
            for c, d, tags in viol:
                res.fail(c, case, d, REPLAY(case, c), tags)
    return res


def REPLAY(case, contract=None):
    import misc_util

    return misc_util.module_replay(sys.modules[__name__], case, contract=contract)


def run(res, tier, seed, jobs):
    import misc_util

    ws = list(words(tier))
    # interleave so that every worker gets a similar mix
    chunks = [ws[i :: jobs * 8] for i in range(jobs * 8)]
    chunks = [c for c in chunks if c]
    for r in misc_util.pmap(work, chunks, jobs):
        res.merge(r)
    res.bounds.update(bounds(tier))
    res.bounds["words"] = len(ws)
    res.exhaustive = True
    res.notes.append(
        "probe signature is top-level only (class, Number value, number of reduced vars, input names): the sub-term carried "
        "by a cons-cache hit depends on the interpretation that first built the key (reflect alpha-renames by re-interpreting "
        "the body under the active interpretation), which is outside C17"
    )
    return res
