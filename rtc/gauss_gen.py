"""gauss_gen: enumeration of signatures / seeded generation of well-conditioned parameters for drv_gauss.
No funsor in here; everything produced is plain data understood by gauss_core.run_case."""
import itertools
from collections import OrderedDict

import numpy as np

from gauss_core import enc, prod

REAL_NAMES = ["x", "y", "z"]
INT_NAMES = ["i", "j"]


# ------------------------------------------------------------------------------------------------
# signatures


def interleavings(reals, ints):
    """all merges of the two sequences keeping the relative order inside each"""
    n, m = len(reals), len(ints)
    for pos in itertools.combinations(range(n + m), m):
        out, ri, ii = [], iter(reals), iter(ints)
        for k in range(n + m):
            out.append(next(ii) if k in pos else next(ri))
        yield out


def signatures(shapes, sizes, max_reals=3, max_ints=2, max_dim=None):
    """every signature: 1..max_reals real inputs with shapes from `shapes`, 0..max_ints batch inputs with sizes
    from `sizes`, every interleaving of int and real inputs"""
    for nr in range(1, max_reals + 1):
        for shp in itertools.product(shapes, repeat=nr):
            if max_dim is not None and sum(prod(s) for s in shp) > max_dim:
                continue
            reals = [[REAL_NAMES[k], "real", list(shp[k])] for k in range(nr)]
            for ni in range(0, max_ints + 1):
                for sz in itertools.product(sizes, repeat=ni):
                    ints = [[INT_NAMES[k], "int", sz[k]] for k in range(ni)]
                    for sig in interleavings(reals, ints):
                        yield sig


def sig_dim(sig):
    return sum(prod(s) for _, k, s in sig if k == "real")


def sig_batch(sig):
    return tuple(s for _, k, s in sig if k == "int")


def rank_set(dim):
    return sorted({r for r in (0, 1, dim - 1, dim, dim + 1, 2 * dim, 2 * dim + 1) if 0 <= r <= 2 * dim + 1})


# ------------------------------------------------------------------------------------------------
# well-conditioned parameters


def rand_orth(rs, n):
    if n == 0:
        return np.zeros((0, 0))
    q, r = np.linalg.qr(rs.randn(n, n))
    return q * np.sign(np.diag(r) + (np.diag(r) == 0))


def rand_prec_sqrt(rs, dim, rank):
    """dim x rank with all non-zero singular values in [0.7, 1.6]"""
    m = min(dim, rank)
    if m == 0:
        return np.zeros((dim, rank))
    U = rand_orth(rs, dim)
    V = rand_orth(rs, rank)
    s = rs.uniform(0.7, 1.6, size=m)
    return (U[:, :m] * s) @ V[:m, :]


def rand_pd(rs, dim):
    U = rand_orth(rs, dim)
    s = rs.uniform(0.5, 2.0, size=dim)
    return (U * s) @ U.T


def blocks_of(sig):
    out, off = [], 0
    for n, k, s in sig:
        if k == "real":
            out.append((n, off, off + prod(s)))
            off += prod(s)
    return out


def well_conditioned_blocks(S, sig, limit=200.0):
    """every union of real-input blocks whose dimension <= rank has a well-conditioned precision block"""
    blocks = blocks_of(sig)
    rank = S.shape[-1]
    for r in range(1, len(blocks) + 1):
        for sub in itertools.combinations(blocks, r):
            idx = np.concatenate([np.arange(a, b) for _, a, b in sub])
            if len(idx) > rank:
                continue
            Sb = S[idx, :]
            sv = np.linalg.svd(Sb, compute_uv=False)
            if sv.min() <= 0 or (sv.max() / sv.min()) ** 2 > limit:
                return False
    return True


def gen_leaf(rs, sig, rank=None, ctor=("white_vec", "prec_sqrt"), blocks=False):
    """leaf spec with seeded well-conditioned parameters for the given constructor parametrisation"""
    dim = sig_dim(sig)
    bshape = sig_batch(sig)
    loc, scale = ctor
    args = {}
    if scale == "prec_sqrt":
        S = np.zeros(bshape + (dim, rank))
        for b in np.ndindex(*bshape):
            for attempt in range(200):
                Sb = rand_prec_sqrt(rs, dim, rank)
                if not blocks or well_conditioned_blocks(Sb, sig):
                    break
            else:
                raise RuntimeError("no well conditioned draw")
            S[b] = Sb
        args["prec_sqrt"] = enc(S)
        r = rank
    else:
        M = np.zeros(bshape + (dim, dim))
        for b in np.ndindex(*bshape):
            A = rand_pd(rs, dim)
            M[b] = np.linalg.cholesky(A) if scale == "scale_tril" else A
        args[scale] = enc(M)
        r = dim
    if loc == "white_vec":
        args["white_vec"] = enc(rs.randn(*(bshape + (r,))))
    else:
        args[loc] = enc(rs.randn(*(bshape + (dim,))))
    return {"inputs": [list(t) for t in sig], "args": args}


CTORS = [
    ("white_vec", "prec_sqrt"),
    ("mean", "prec_sqrt"),
    ("info_vec", "prec_sqrt"),
    ("mean", "precision"),
    ("info_vec", "precision"),
    ("mean", "covariance"),
    ("info_vec", "covariance"),
    ("mean", "scale_tril"),
    ("info_vec", "scale_tril"),
]


# ------------------------------------------------------------------------------------------------
# operations applicable to an oracle signature  (inputs: OrderedDict name -> ("int", n) | ("real", shape))

FRESH_REAL = ["u", "v", "w"]
FRESH_INT = ["k", "m"]


def fresh(inputs, pool):
    """at least 4 names of the pool (then pool names with a numeric suffix) that are not in `inputs`"""
    out = [n for n in pool if n not in inputs]
    k = 1
    while len(out) < 4:
        out += [n + str(k) for n in pool if n + str(k) not in inputs]
        k += 1
    return out


def real_value(rs, shape, inputs, kind, newsize=2):
    """substitution value for a real input of the given shape"""
    if kind == "num_real":
        return {"t": "num_real", "v": float(np.round(rs.randn(), 3))}
    if kind == "py_float":
        return {"t": "py_float", "v": float(np.round(rs.randn(), 3))}
    if kind == "tensor":
        return {"t": "tensor_real", "data": enc(rs.randn(*shape)), "inputs": []}
    if kind == "tensor_batch":  # depends on an existing batch input
        ints = [(n, d[1]) for n, d in inputs.items() if d[0] == "int"]
        n, s = ints[rs.randint(len(ints))]
        return {"t": "tensor_real", "data": enc(rs.randn(*((s,) + tuple(shape)))), "inputs": [[n, s]]}
    if kind == "tensor_newbatch":
        n = fresh(inputs, FRESH_INT)[0]
        s = newsize
        return {"t": "tensor_real", "data": enc(rs.randn(*((s,) + tuple(shape)))), "inputs": [[n, s]]}
    raise ValueError(kind)


def const(rs, shape, inputs=()):
    bs = tuple(s for _, s in inputs)
    return ["const", enc(np.round(rs.uniform(0.5, 2.0, size=bs + tuple(shape)) * rs.choice([-1, 1], size=bs + tuple(shape)), 3)), [list(t) for t in inputs]]


def affine_exprs(rs, shape, inputs, target):
    """list of (label, expr) affine expressions of output shape `shape` over fresh real variables (and
    existing inputs other than `target`)"""
    shape = tuple(shape)
    fr = fresh(inputs, FRESH_REAL)
    u, v = fr[0], fr[1]
    ints = [(n, d[1]) for n, d in inputs.items() if d[0] == "int"]
    out = []
    U = ["var", u, list(shape)]
    V = ["var", v, list(shape)]
    out.append(("scale_shift", ["add", ["mul", const(rs, ()), U], const(rs, shape)]))
    out.append(("two_vars", ["add", ["mul", const(rs, ()), U], V]))
    out.append(("sub_neg_div", ["div", ["neg", ["sub", U, V]], const(rs, ())]))
    if ints:
        out.append(("batched_coeff", ["add", ["mul", U, const(rs, shape, [ints[0]])], const(rs, shape, [ints[-1]])]))
    newb = fresh(inputs, FRESH_INT)
    if newb:
        out.append(("newbatch_const", ["add", U, const(rs, shape, [(newb[0], 2)])]))
    same = [n for n, d in inputs.items() if d == ("real", shape) and n != target]
    if same:
        out.append(("existing_var", ["add", ["var", same[0], list(shape)], ["mul", const(rs, ()), U]]))
    out.append(("getitem", ["getitem", ["var", u, [2] + list(shape)], 1]))
    if shape == ():
        out.append(("sum", ["sum", ["var", u, [2]]]))
        out.append(("dot", ["matmul", ["var", u, [2]], const(rs, (2,))]))
    else:
        n = prod(shape)
        out.append(("reshape", ["reshape", ["var", u, [n]], list(shape)]))
        if len(shape) == 1:
            out.append(("vec_mat", ["matmul", ["var", u, [3]], const(rs, (3, shape[0]))]))
            out.append(("mat_vec", ["add", ["matmul", const(rs, (shape[0], 2)), ["var", u, [2]]], V]))
        if len(shape) == 2:
            out.append(("mat_mat", ["matmul", U, const(rs, (shape[1], shape[1]))]))
    return out


def enumerate_steps(rs, inputs):
    """a systematic list of (label, step) over every supported operation kind, for a value with `inputs`"""
    inputs = OrderedDict(inputs)
    reals = [(n, d[1]) for n, d in inputs.items() if d[0] == "real"]
    ints = [(n, d[1]) for n, d in inputs.items() if d[0] == "int"]
    steps = []

    # --- real substitution: every non-empty subset of real inputs; value kinds rotate
    kinds = ["tensor", "tensor_newbatch"] + (["tensor_batch"] if ints else [])
    for r in range(1, len(reals) + 1):
        for sub in itertools.combinations(reals, r):
            for kind in kinds:
                subs = OrderedDict()
                newsize = int(rs.randint(1, 4))
                for (n, s) in sub:
                    subs[n] = real_value(rs, s, inputs, kind, newsize)
                steps.append(("subs_real:%s:%s" % (kind, "+".join(n for n, _ in sub)), {"op": "subs", "subs": subs}))
                if r >= 2 and kind == "tensor":
                    # the same substitution written with the pairs in the opposite order (explicit Subs), and as a chain of
                    # single substitutions built lazily and fused (C04: f(a)(b) == f(a, b); the order of pairs is immaterial)
                    steps.append(("subs_real:reversed_pairs:%s" % "+".join(n for n, _ in sub), {"op": "subs", "subs": subs, "how": "reversed"}))
                    steps.append(("subs_real:chained_lazy:%s" % "+".join(n for n, _ in sub), {"op": "subs", "subs": subs, "how": "chained"}))
    for (n, s) in reals:
        if s == ():
            steps.append(("subs_real:num_real:" + n, {"op": "subs", "subs": {n: real_value(rs, s, inputs, "num_real")}}))
            steps.append(("subs_real:py_float:" + n, {"op": "subs", "subs": {n: real_value(rs, s, inputs, "py_float")}}))

    # --- int substitution
    newi = fresh(inputs, FRESH_INT)
    for (n, s) in ints:
        for v in sorted({0, s - 1}):
            steps.append(("subs_int:num:%s=%d" % (n, v), {"op": "subs", "subs": {n: {"t": "num_int", "v": v}}}))
        steps.append(("subs_int:py:%s" % n, {"op": "subs", "subs": {n: {"t": "py_int", "v": int(rs.randint(s))}}}))
        m = int(rs.randint(1, 4))
        steps.append(("subs_int:tensor_new:%s" % n, {"op": "subs", "subs": {n: {"t": "tensor_int", "data": enc(rs.randint(s, size=m)), "inputs": [[newi[0], m]]}}}))
        others = [(k, t) for k, t in ints if k != n]
        if others:
            k, t = others[0]
            steps.append(("subs_int:tensor_existing:%s" % n, {"op": "subs", "subs": {n: {"t": "tensor_int", "data": enc(rs.randint(s, size=t)), "inputs": [[k, t]]}}}))
        for start in range(s):
            for step_ in range(1, s + 1):
                for stop in sorted({s, max(start + 1, s - 1)}):
                    if len(range(start, stop, step_)) >= 1:
                        for nm in (n, newi[0]):
                            steps.append(("subs_int:slice:%s[%d:%d:%d]->%s" % (n, start, stop, step_, nm), {"op": "subs", "subs": {n: {"t": "slice", "name": nm, "start": start, "stop": stop, "step": step_}}}))
    if len(ints) == 2:
        steps.append(("subs_int:both", {"op": "subs", "subs": OrderedDict((n, {"t": "num_int", "v": int(rs.randint(s))}) for n, s in ints)}))

    # --- renaming
    fr = fresh(inputs, FRESH_REAL)
    for (n, s) in reals:
        steps.append(("rename_real:var:" + n, {"op": "subs", "subs": {n: {"t": "var", "name": fr[0]}}}))
        steps.append(("rename_real:str:" + n, {"op": "subs", "subs": {n: {"t": "str", "name": fr[1]}}}))
    for (n, s) in ints:
        steps.append(("rename_int:var:" + n, {"op": "subs", "subs": {n: {"t": "var", "name": newi[0]}}}))
        steps.append(("rename_int:str:" + n, {"op": "subs", "subs": {n: {"t": "str", "name": newi[-1]}}}))
    same = [(a, b) for a, b in itertools.combinations(reals, 2) if a[1] == b[1]]
    for a, b in same[:1]:
        steps.append(("rename_swap:%s<->%s" % (a[0], b[0]), {"op": "subs", "subs": OrderedDict([(a[0], {"t": "var", "name": b[0]}), (b[0], {"t": "var", "name": a[0]})])}))
    if reals and ints:
        steps.append(("rename_mixed", {"op": "subs", "subs": OrderedDict([(reals[0][0], {"t": "str", "name": fr[0]}), (ints[0][0], {"t": "str", "name": newi[0]})])}))

    # --- affine substitution
    for (n, s) in reals:
        for label, e in affine_exprs(rs, s, inputs, n):
            steps.append(("affine:%s:%s" % (label, n), {"op": "subs", "subs": {n: {"t": "affine", "expr": e}}}))
    if len(reals) >= 2:
        (a, sa), (b, sb) = reals[0], reals[1]
        u = fr[0]
        ea = ["add", ["var", u, list(sa)], const(rs, sa)]
        eb = ["mul", const(rs, ()), ["var", u, list(sb)]] if sa == sb else ["mul", const(rs, ()), ["var", fr[1], list(sb)]]
        steps.append(("affine:two_targets", {"op": "subs", "subs": OrderedDict([(a, {"t": "affine", "expr": ea}), (b, {"t": "affine", "expr": eb})])}))
        # mixed branches in one call: real value + affine (+ int)
        mixed = OrderedDict([(a, real_value(rs, sa, inputs, "tensor")), (b, {"t": "affine", "expr": eb})])
        if ints:
            mixed[ints[0][0]] = {"t": "num_int", "v": 0}
        steps.append(("subs_mixed:real+affine" + ("+int" if ints else ""), {"op": "subs", "subs": mixed}))
        mixed2 = OrderedDict([(a, {"t": "var", "name": fr[2]}), (b, real_value(rs, sb, inputs, "tensor"))])
        steps.append(("subs_mixed:var+real", {"op": "subs", "subs": mixed2}))

    # --- one call that indexes a batch input AND substitutes a real value that has its own (caller-side) batch input of
    # the same name: simultaneous semantics keep the value's input free (C04, C12)
    for (n, sz) in ints[:2]:
        for (r, shape) in reals[:2]:
            for m in (sz, sz + 1):
                val = {"t": "tensor_real", "data": enc(rs.randn(*((m,) + tuple(shape)))), "inputs": [[n, m]]}
                steps.append(("subs_mixed:int+real_sharing_batch_name:%s,%s[%d]" % (n, r, m), {"op": "subs", "subs": OrderedDict([(n, {"t": "num_int", "v": int(rs.randint(sz))}), (r, val)])}))

    # --- one call that RENAMES a batch input while a real value mentions the input's OLD name (a caller-side variable of that
    # name): simultaneous semantics keep the value's input free and distinct from the renamed one (C04, C12)
    for (n, sz) in ints[:2]:
        for (r, shape) in reals[:2]:
            val = {"t": "tensor_real", "data": enc(rs.randn(*((sz,) + tuple(shape)))), "inputs": [[n, sz]]}
            steps.append(("subs_mixed:rename+real_mentioning_old_name:%s,%s" % (n, r), {"op": "subs", "subs": OrderedDict([(n, {"t": "var", "name": newi[0]}), (r, val)])}))
    # --- affine values that mention each other's keys: g(x = c * y, y = c' * x) is a simultaneous substitution (C04, C12)
    if len(same) >= 1:
        (a, sa), (b, sb) = same[0]
        ea = ["mul", const(rs, ()), ["var", b, list(sb)]]
        eb = ["mul", const(rs, ()), ["var", a, list(sa)]]
        steps.append(("affine:swap_with_scaling:%s,%s" % (a, b), {"op": "subs", "subs": OrderedDict([(a, {"t": "affine", "expr": ea}), (b, {"t": "affine", "expr": eb})])}))
        steps.append(("affine:value_mentions_other_key:%s,%s" % (a, b), {"op": "subs", "subs": OrderedDict([(a, {"t": "affine", "expr": ea})])}))

    # --- an affine value that mentions its OWN key: g(x = c * x + d) reads the caller's x (C04, C12)
    for (n, sh) in reals[:2]:
        e = ["add", ["mul", const(rs, ()), ["var", n, list(sh)]], const(rs, sh)]
        steps.append(("affine:self_scaling:%s" % n, {"op": "subs", "subs": {n: {"t": "affine", "expr": e}}}))

    # --- values that LOOK affine to a shallow test but are not: a sum with a non-affine use of the same input, a non-additive
    # reduction.  The substitution must still be function application (a lazy Subs is fine, a linearisation is not) (C04, C12)
    for (n, sh) in reals[:2]:
        u = fr[0]
        e1 = ["add", ["var", u, list(sh)], ["exp", ["var", u, list(sh)]]]
        steps.append(("nonaffine:sum_with_exp:%s" % n, {"op": "subs", "subs": {n: {"t": "affine", "expr": e1}}}))
        if len(sh) == 0:
            e2 = ["logsumexp", ["var", u, [2]]]
            steps.append(("nonaffine:logsumexp_reduction:%s" % n, {"op": "subs", "subs": {n: {"t": "affine", "expr": e2}}}))

    # --- align: every permutation of (up to 4) names, plus prefixes
    names = list(inputs)
    perms = list(itertools.permutations(names))
    if len(perms) > 24:
        perms = [perms[k] for k in sorted(rs.choice(len(perms), size=24, replace=False))]
    for pm in perms:
        steps.append(("align:" + ",".join(pm), {"op": "align", "names": list(pm)}))
    if len(names) >= 2:
        steps.append(("align_prefix:" + names[-1], {"op": "align", "names": [names[-1]]}))

    return steps


def sig_from_inputs(inputs):
    return [[n, "int", d[1]] if d[0] == "int" else [n, "real", list(d[1])] for n, d in inputs.items()]


def partner_sigs(rs, inputs, count=4):
    """signatures for a second Gaussian sharing names (and domains) with `inputs`: same; subset of reals +
    a new real; different batch inputs; different order"""
    inputs = OrderedDict(inputs)
    reals = [[n, "real", list(d[1])] for n, d in inputs.items() if d[0] == "real"]
    ints = [[n, "int", d[1]] for n, d in inputs.items() if d[0] == "int"]
    out = []
    out.append(("same", sig_from_inputs(inputs)))
    out.append(("reversed", list(reversed(sig_from_inputs(inputs)))))
    fr = fresh(inputs, REAL_NAMES + FRESH_REAL)
    newr = [fr[0], "real", [[], [2], [2, 2]][rs.randint(3)]]
    out.append(("real_subset+new", [newr] + reals[:1] + ints[-1:]))
    fi = fresh(inputs, INT_NAMES + FRESH_INT)
    out.append(("other_batch", [[fi[0], "int", int(rs.randint(1, 4))]] + reals[-1:] + ints[:1]))
    if len(reals) > 1:
        out.append(("reals_permuted_nobatch", list(reversed(reals))))
    return out


def rand_rank(rs, dim):
    rk = rank_set(dim)
    return int(rk[rs.randint(len(rk))])


def add_steps(rs, inputs):
    out = []
    for label, sig in partner_sigs(rs, inputs):
        dim = sig_dim(sig)
        if dim == 0:
            continue
        leaf = gen_leaf(rs, sig, rand_rank(rs, dim))
        out.append(("add:" + label, {"op": "add", "leaf": leaf, "side": ["left", "right"][rs.randint(2)]}))
    ints = [(n, d[1]) for n, d in inputs.items() if d[0] == "int"]
    newi = fresh(inputs, FRESH_INT)
    tin = ints[:1] + [(newi[0], 2)]
    out.append(("add_tensor", {"op": "add_tensor", "tensor": {"data": enc(rs.randn(*[s for _, s in tin])), "inputs": [list(t) for t in tin]}}))
    return out


def cat_steps(rs, inputs):
    """variants of Cat(name, parts, part_name) with the current value as one of the parts"""
    inputs = OrderedDict(inputs)
    ints = [(n, d[1]) for n, d in inputs.items() if d[0] == "int"]
    reals = [(n, d[1]) for n, d in inputs.items() if d[0] == "real"]
    out = []
    if not ints or not reals:
        return out
    base = sig_from_inputs(inputs)
    newi = fresh(inputs, FRESH_INT)

    def resized(sig, pn, size):
        return [[n, k, (size if n == pn else s)] for n, k, s in sig]

    def tensor_for(sig):
        tin = [(n, s) for n, k, s in sig if k == "int"]
        return {"data": enc(rs.randn(*[s for _, s in tin])), "inputs": [list(t) for t in tin]}

    for pn, psize in ints:
        dim = sig_dim(base)
        # 1. same signature, same name, F first
        l1 = gen_leaf(rs, resized(base, pn, int(rs.randint(1, 4))), rand_rank(rs, dim))
        out.append(("cat:same_sig:" + pn, {"op": "cat", "name": pn, "part_name": pn, "others": [l1], "pos": 0}))
        # 2. renamed, F last
        l2 = gen_leaf(rs, resized(base, pn, int(rs.randint(1, 4))), rand_rank(rs, dim))
        out.append(("cat:renamed:" + pn, {"op": "cat", "name": newi[0], "part_name": pn, "others": [l2], "pos": 1}))
        # 3. three parts, different order of inputs / ranks, F in the middle
        l3 = gen_leaf(rs, list(reversed(resized(base, pn, int(rs.randint(1, 4))))), rand_rank(rs, dim))
        l4 = gen_leaf(rs, resized(base, pn, int(rs.randint(1, 4))), rand_rank(rs, dim))
        out.append(("cat:three_parts:" + pn, {"op": "cat", "name": pn, "part_name": pn, "others": [l3, l4], "pos": 1}))
        # 4. a part lacking one of the other inputs
        lack = [t for t in base if t[0] == pn or t[1] == "real"][: 1 + len(reals)]
        if len(reals) > 1:
            lack = [t for t in lack if t[0] != reals[-1][0]]
        if lack != base:
            l5 = gen_leaf(rs, resized(lack, pn, int(rs.randint(1, 4))), rand_rank(rs, sig_dim(lack)))
            out.append(("cat:part_lacks_inputs:" + pn, {"op": "cat", "name": pn, "part_name": pn, "others": [l5], "pos": int(rs.randint(2))}))
            out.append(("cat:part_lacks_inputs_renamed:" + pn, {"op": "cat", "name": newi[-1], "part_name": pn, "others": [l5], "pos": int(rs.randint(2))}))
        # 5. mixture part
        sg = resized(base, pn, int(rs.randint(1, 4)))
        l6 = gen_leaf(rs, sg, rand_rank(rs, dim))
        out.append(("cat:mixture:" + pn, {"op": "cat", "name": pn, "part_name": pn, "others": [l6], "other_tensors": [tensor_for(sg)], "pos": int(rs.randint(2))}))
    return out


def all_steps(rs, inputs):
    steps = enumerate_steps(rs, inputs)
    steps += add_steps(rs, inputs)
    steps += cat_steps(rs, inputs)
    steps.append(("compress_interp", {"op": "compress_interp"}))
    return steps


def gen_chain_ops(rs, orc_leaf_fn, orc_step_fn, leaf, depth, max_dim=10, max_inputs=6):
    """random chain of `depth` operations starting from `leaf`; the oracle is used to track the inputs"""
    O = orc_leaf_fn(leaf)
    ops_ = []
    labels = []
    for d in range(depth):
        reals = [n for n, dd in O.inputs.items() if dd[0] == "real"]
        if not reals:
            break
        groups = {}
        for label, step in all_steps(rs, O.inputs):
            groups.setdefault(label.split(":")[0], []).append((label, step))
        # uniform over operation kinds, then uniform inside the kind
        kinds = sorted(groups)
        for attempt in range(20):
            kind = kinds[rs.randint(len(kinds))]
            label, step = groups[kind][rs.randint(len(groups[kind]))]
            O2 = orc_step_fn(O, step)
            dim = sum(prod(dd[1]) for dd in O2.inputs.values() if dd[0] == "real")
            if dim <= max_dim and len(O2.inputs) <= max_inputs:
                break
        else:
            break
        ops_.append(step)
        labels.append(label)
        O = O2
    return ops_, labels


# ------------------------------------------------------------------------------------------------
# expressions for extract_affine


def affine_test_exprs(rs, shapes, with_batch):
    """(label, expr) affine in all of its real inputs"""
    out = []
    binp = [("i", 2)] if with_batch else []
    for shape in shapes:
        shape = tuple(shape)
        U = ["var", "u", list(shape)]
        V = ["var", "v", list(shape)]
        out.append(("var", U))
        out.append(("neg", ["neg", U]))
        out.append(("scale_shift", ["add", ["mul", const(rs, (), binp), U], const(rs, shape)]))
        out.append(("const_minus", ["sub", const(rs, shape, binp), U]))
        out.append(("two_vars", ["sub", ["mul", const(rs, shape), U], ["div", V, const(rs, (), binp)]]))
        out.append(("nested", ["add", ["neg", ["add", U, V]], ["mul", const(rs, ()), ["sub", U, const(rs, shape, binp)]]]))
        out.append(("getitem", ["add", ["getitem", ["var", "w", [2] + list(shape)], 0], U]))
        out.append(("sum", ["sum", ["mul", U, const(rs, shape)]]))
        n = prod(shape)
        out.append(("reshape", ["reshape", ["mul", U, const(rs, shape, binp)], [n]]))
        if len(shape) == 1:
            out.append(("vec_mat", ["add", ["matmul", U, const(rs, (shape[0], 3), binp)], ["var", "w", [3]]]))
            out.append(("mat_vec", ["matmul", const(rs, (2, shape[0])), U]))
            out.append(("dot", ["matmul", U, const(rs, shape)]))
        if len(shape) == 2:
            out.append(("mat_mat", ["matmul", const(rs, (3, shape[0])), ["matmul", U, const(rs, (shape[1], 2), binp)]]))
            out.append(("getitem2", ["getitem", ["getitem", U, shape[0] - 1], 0]))
        # mixed shapes (broadcasting of event shapes)
        if shape:
            out.append(("broadcast", ["add", U, ["var", "s", []]]))
    return out


# ------------------------------------------------------------------------------------------------
# C13


def subsets(items, min_size=1):
    items = list(items)
    for r in range(min_size, len(items) + 1):
        for sub in itertools.combinations(items, r):
            yield list(sub)


def tensor_spec(rs, tin):
    return {"data": enc(rs.randn(*[s for _, s in tin])), "inputs": [list(t) for t in tin]}


def const_subs(rs, reals):
    return OrderedDict((n, {"t": "tensor_real", "data": enc(rs.randn(*s)), "inputs": []}) for n, s in reals)


def c13_programs(rs, sig, rank):
    """(label, program, tensor|None) for a leaf of the given signature/rank (precondition: every reduced real block
    has dimension <= rank)"""
    reals = [(n, tuple(s)) for n, k, s in sig if k == "real"]
    ints = [(n, s) for n, k, s in sig if k == "int"]
    dimof = lambda sub: sum(prod(s) for _, s in sub)
    dim = dimof(reals)
    out = []
    RL = lambda names: {"op": "reduce", "red": "logaddexp", "names": list(names)}
    RA = lambda names: {"op": "reduce", "red": "add", "names": list(names)}
    for B in subsets(reals):
        if dimof(B) > rank:
            continue
        bn = [n for n, _ in B]
        rest = [r for r in reals if r[0] not in bn]
        out.append(("marg:" + "+".join(bn), [RL(bn)], None))
        for J in subsets(ints):
            jn = [n for n, _ in J]
            out.append(("marg+ints:" + "+".join(bn + jn), [RL(bn + jn)], None))
        # marginalisation commutes with itself
        for B2 in subsets(rest):
            if dimof(B) + dimof(B2) > rank:
                continue
            out.append(("marg;marg:%s;%s" % ("+".join(bn), "+".join(n for n, _ in B2)), [RL(bn), RL([n for n, _ in B2])], None))
        # ... and with pointwise evaluation of remaining inputs
        for A in subsets(rest):
            an = "+".join(n for n, _ in A)
            out.append(("eval;marg:%s;%s" % (an, "+".join(bn)), [{"op": "subs", "subs": const_subs(rs, A)}, RL(bn)], None))
            out.append(("marg;eval:%s;%s" % ("+".join(bn), an), [RL(bn), {"op": "subs", "subs": const_subs(rs, A)}], None))
        if ints:
            n0, s0 = ints[0]
            isub = {"op": "subs", "subs": {n0: {"t": "num_int", "v": int(rs.randint(s0))}}}
            out.append(("evalint;marg:%s;%s" % (n0, "+".join(bn)), [isub, RL(bn)], None))
            out.append(("marg;evalint:%s;%s" % ("+".join(bn), n0), [RL(bn), isub], None))
    if rank >= dim:
        out.append(("log_normalizer", [{"op": "log_normalizer"}], None))
    # plates
    for J in subsets(ints):
        jn = [n for n, _ in J]
        out.append(("plate:" + "+".join(jn), [RA(jn)], None))
        for B in subsets(reals):
            if dimof(B) <= rank:
                out.append(("plate;marg:%s;%s" % ("+".join(jn), "+".join(n for n, _ in B)), [RA(jn), RL([n for n, _ in B])], None))
    if len(ints) == 2:
        out.append(("plate;plate", [RA([ints[1][0]]), RA([ints[0][0]])], None))
    # mixtures  t + g
    newi = fresh(dict((n, 0) for n, _, _ in sig), FRESH_INT)
    tins = [list(ints), list(reversed(ints)), ints[:1], ints[-1:] + [(newi[0], 2)]] if ints else [[(newi[0], 2)]]
    seen = []
    for tin in tins:
        if tin in seen:
            continue
        seen.append(tin)
        all_ints = ints + [t for t in tin if t not in ints]
        tl = "t[" + ",".join(n for n, _ in tin) + "]"
        for J in subsets(all_ints):
            jn = [n for n, _ in J]
            out.append(("mix:%s:ints:%s" % (tl, "+".join(jn)), [RL(jn)], tensor_spec(rs, tin)))
            if rank >= dim:
                rn = [n for n, _ in reals]
                out.append(("mix:%s:ints+reals:%s" % (tl, "+".join(jn)), [RL(jn + rn)], tensor_spec(rs, tin)))
                out.append(("mix:%s:reals;ints:%s" % (tl, "+".join(jn)), [RL(rn), RL(jn)], tensor_spec(rs, tin)))
                out.append(("mix:%s:ints;reals:%s" % (tl, "+".join(jn)), [RL(jn), RL(rn)], tensor_spec(rs, tin)))
            for B in subsets(reals):
                if dimof(B) <= rank and len(B) < len(reals):
                    out.append(("mix:%s:partial_reals+ints:%s" % (tl, "+".join(jn)), [RL(jn + [n for n, _ in B])], tensor_spec(rs, tin)))
                    break
        for B in subsets(reals):
            if dimof(B) <= rank:
                out.append(("mix:%s:reals:%s" % (tl, "+".join(n for n, _ in B)), [RL([n for n, _ in B])], tensor_spec(rs, tin)))
    return out


def c13_integrands(rs, sig):
    """(label, integrand, names) for a full-rank measure with signature sig"""
    reals = [(n, tuple(s)) for n, k, s in sig if k == "real"]
    ints = [(n, s) for n, k, s in sig if k == "int"]
    rn = [n for n, _ in reals]
    out = []
    name_sets = [("reals", rn)] + ([("reals+" + ints[0][0], rn + [ints[0][0]])] if ints else [])
    newi = fresh(dict((n, 0) for n, _, _ in sig), FRESH_INT)
    for nl, names in name_sets:
        for n, s in reals:
            out.append(("var:%s:%s" % (n, nl), {"t": "var", "name": n, "shape": list(s)}, names))
        n, s = reals[0]
        X = ["var", n, list(s)]
        out.append(("affine:scale_shift:" + nl, {"t": "affine", "expr": ["add", ["mul", const(rs, ()), X], const(rs, s)]}, names))
        if len(reals) > 1 and reals[1][1] == s:
            out.append(("affine:two_vars:" + nl, {"t": "affine", "expr": ["sub", X, ["var", reals[1][0], list(s)]]}, names))
        if s:
            out.append(("affine:sum:" + nl, {"t": "affine", "expr": ["sum", X]}, names))
        # Gaussian integrands over subsets of the reals, any rank, several batch layouts
        for B in subsets(reals):
            dimB = sum(prod(sh) for _, sh in B)
            for bl, bints in [("nobatch", []), ("samebatch", list(reversed(ints))), ("newbatch", ints[:1] + [(newi[0], 2)])]:
                if bl == "samebatch" and not ints:
                    continue
                sig2 = [[nn, "real", list(sh)] for nn, sh in reversed(B)] + [[nn, "int", ss] for nn, ss in bints]
                if rs.rand() < 0.5:
                    sig2 = list(reversed(sig2))
                r2 = rand_rank(rs, dimB)
                out.append(("gaussian:%s:%s:rank%d:%s" % ("+".join(nn for nn, _ in B), bl, r2, nl), {"t": "gaussian", "leaf": gen_leaf(rs, sig2, r2)}, names))
        sigB = [[nn, "real", list(sh)] for nn, sh in reals]
        out.append(("neg_gaussian:" + nl, {"t": "neg_gaussian", "leaf": gen_leaf(rs, sigB, rand_rank(rs, sig_dim(sigB)))}, names))
        out.append(("sum_gaussians:" + nl, {"t": "sum_gaussians", "leaves": [gen_leaf(rs, sigB, rand_rank(rs, sig_dim(sigB))), gen_leaf(rs, sigB[:1], rand_rank(rs, sig_dim(sigB[:1])))]}, names))
    return out


def c13_deficient(rs, sig):
    """(label, spec-fragment) for the error clause"""
    reals = [(n, tuple(s)) for n, k, s in sig if k == "real"]
    dimof = lambda sub: sum(prod(s) for _, s in sub)
    dim = dimof(reals)
    out = []
    for B in subsets(reals):
        dB = dimof(B)
        for rank in sorted({0, dB - 1, dB // 2}):
            if 0 <= rank < dB:
                leaf = gen_leaf(rs, sig, rank)
                bn = [n for n, _ in B]
                out.append(("rank<dim_b:reduce:%s:rank%d" % ("+".join(bn), rank), {"leaf": leaf, "via": "reduce", "names": bn, "why": "rank<dim_b"}))
                if len(B) == len(reals):
                    out.append(("rank<dim:log_normalizer:rank%d" % rank, {"leaf": leaf, "via": "log_normalizer", "names": bn, "why": "rank<dim"}))
                    if len(reals) == 1:
                        out.append(("rank<dim:integrate_variable:rank%d" % rank, {"leaf": leaf, "via": "integrate_variable", "names": bn, "why": "rank<dim"}))
                out.append(("rank<dim_b:sample:%s:rank%d" % ("+".join(bn), rank), {"leaf": leaf, "via": "sample", "names": bn, "why": "rank<dim_b"}))
    # structurally deficient block although the total rank is large enough
    if len(reals) >= 2:
        ints = [[n, k, s] for n, k, s in sig if k == "int"]
        for (n, s) in reals:
            dB = prod(s)
            others = [[m, "real", list(t)] for m, t in reals if m != n]
            d_o = sig_dim(others)
            for rb in sorted({0, dB - 1}):
                if d_o + rb >= dB:
                    l1 = gen_leaf(rs, ints + others, d_o)
                    l2 = gen_leaf(rs, [[n, "real", list(s)]] + ints[:1], rb)
                    out.append(("block_deficient:reduce:%s:blockrank%d" % (n, rb), {"leaf": l1, "add": [l2], "via": "reduce", "names": [n], "why": "block_rank_deficient"}))
                    out.append(("block_deficient:sample:%s:blockrank%d" % (n, rb), {"leaf": l1, "add": [l2], "via": "sample", "names": [n], "why": "block_rank_deficient"}))
    return out


def c13_mm(rs, sig):
    """(label, tensor, names) for moment matching on a full-rank leaf with >= 1 batch input"""
    reals = [(n, tuple(s)) for n, k, s in sig if k == "real"]
    ints = [(n, s) for n, k, s in sig if k == "int"]
    out = []
    newi = fresh(dict((n, 0) for n, _, _ in sig), FRESH_INT)
    tins = [list(ints), list(reversed(ints)), ints[:1], ints[-1:] + [(newi[0], 2)]]
    seen = []
    for tin in tins:
        if tin in seen:
            continue
        seen.append(tin)
        tl = "t[" + ",".join(n for n, _ in tin) + "]"
        all_ints = ints + [t for t in tin if t not in ints]
        for J in subsets(all_ints):
            jn = [n for n, _ in J]
            out.append(("mm:%s:%s" % (tl, "+".join(jn)), tensor_spec(rs, tin), jn))
            if len(reals) > 1:
                out.append(("mm:%s:%s+%s" % (tl, "+".join(jn), reals[0][0]), tensor_spec(rs, tin), jn + [reals[0][0]]))
            out.append(("mm:%s:%s+allreals" % (tl, "+".join(jn)), tensor_spec(rs, tin), jn + [n for n, _ in reals]))
    return out


# ------------------------------------------------------------------------------------------------
# C14


def dy(rs, shape=()):
    return rs.randint(-16, 17, size=shape) / 8.0


def delta_specs(rs):
    """(label, spec-fragment) for Delta(name, point, log_density) over every kind of point / log_density"""
    out = []
    lds = [
        ("ld_default", None),
        ("ld_zero", {"t": "num_real", "v": 0.0}),
        ("ld_num", {"t": "num_real", "v": float(dy(rs))}),
        ("ld_tensor_i", {"t": "tensor_real", "data": enc(dy(rs, (3,))), "inputs": [["i", 3]]}),
        ("ld_tensor_k", {"t": "tensor_real", "data": enc(dy(rs, (2,))), "inputs": [["k", 2]]}),
    ]
    for shape in [(), (2,), (2, 2), (1,), (3,)]:
        dom = ["real", list(shape)]
        pts = []
        if shape == ():
            pts.append(("pt_number", {"t": "num_real", "v": float(dy(rs))}))
            pts.append(("pt_pyfloat", {"t": "py_float", "v": float(dy(rs))}))
        pts.append(("pt_tensor", {"t": "tensor_real", "data": enc(dy(rs, shape)), "inputs": []}))
        pts.append(("pt_tensor_i", {"t": "tensor_real", "data": enc(dy(rs, (3,) + shape)), "inputs": [["i", 3]]}))
        pts.append(("pt_tensor_ij", {"t": "tensor_real", "data": enc(dy(rs, (3, 2) + shape)), "inputs": [["i", 3], ["j", 2]]}))
        Y = ["var", "y", list(shape)]
        c = lambda sh=(), inp=(): ["const", enc(dy(rs, tuple(s for _, s in inp) + tuple(sh))), [list(t) for t in inp]]
        pts.append(("pt_lazy_var", {"t": "affine", "expr": Y}))
        pts.append(("pt_lazy_affine", {"t": "affine", "expr": ["add", ["mul", ["const", enc(np.array(2.0)), []], Y], c(shape)]}))
        pts.append(("pt_lazy_affine_i", {"t": "affine", "expr": ["sub", Y, c(shape, [("i", 3)])]}))
        pts.append(("pt_lazy_two", {"t": "affine", "expr": ["add", Y, ["var", "z", list(shape)]]}))
        pts.append(("pt_lazy_getitem", {"t": "affine", "expr": ["getitem", ["var", "y", [2] + list(shape)], 1]}))
        for pl, pv in pts:
            for ll, ld in lds:
                out.append(("real%s:%s:%s" % (list(shape), pl, ll), {"name": "x", "dom": dom, "point": pv, "log_density": ld}))
    for size in [1, 2, 4]:
        dom = ["int", size]
        pts = [
            ("pt_number", {"t": "num_int", "v": int(rs.randint(size))}),
            ("pt_tensor_i", {"t": "tensor_int", "data": enc(rs.randint(size, size=3)), "inputs": [["i", 3]]}),
            ("pt_tensor_ij", {"t": "tensor_int", "data": enc(rs.randint(size, size=(3, 2))), "inputs": [["i", 3], ["j", 2]]}),
            ("pt_lazy_var", {"t": "var", "name": "w"}),
        ]
        for pl, pv in pts:
            for ll, ld in lds:
                out.append(("bint%d:%s:%s" % (size, pl, ll), {"name": "v", "dom": dom, "point": pv, "log_density": ld}))
    return out


def delta_f_specs(rs, frag):
    """summands / integrands f for a Delta fragment: (label, f, vias)"""
    name, dom = frag["name"], frag["dom"]
    out = []
    ld = frag["log_density"]
    if not (ld is None or (ld["t"] == "num_real" and ld["v"] == 0.0)):
        return out  # the statement speaks about unit-mass Deltas only
    both = ["reduce_left", "reduce_right", "integrate"]
    if dom[0] == "real":
        shape = list(dom[1])
        for label, sig in [
            ("gauss_x", [[name, "real", shape]]),
            ("gauss_ax_i", [["a", "real", []], ["i", "int", 3], [name, "real", shape]]),
            ("gauss_xa_m", [[name, "real", shape], ["m", "int", 2], ["a", "real", [2]]]),
        ]:
            d = sig_dim(sig)
            out.append((label, {"t": "leaf", "leaf": gen_leaf(rs, sig, rand_rank(rs, d))}, both))
        X = ["var", name, shape]
        out.append(("expr_var", {"t": "expr", "expr": X}, ["integrate"]))
        out.append(("expr_affine", {"t": "expr", "expr": ["add", ["mul", ["const", enc(np.array(3.0)), []], X], ["const", enc(dy(rs, (3,) + tuple(shape))), [["i", 3]]]]}, ["integrate"]))
        out.append(("expr_square", {"t": "expr", "expr": ["sum", ["mul", X, X]]}, both))
        out.append(("tensor_unrelated", {"t": "tensor", "tensor": tensor_spec(rs, [("i", 3)])}, both))
    else:
        size = dom[1]
        out.append(("tensor_v", {"t": "tensor", "tensor": tensor_spec(rs, [(name, size)])}, both))
        out.append(("tensor_iv", {"t": "tensor", "tensor": tensor_spec(rs, [("i", 3), (name, size)])}, both))
        out.append(("tensor_vm", {"t": "tensor", "tensor": tensor_spec(rs, [(name, size), ("m", 2)])}, both))
        out.append(("gauss_v", {"t": "leaf", "leaf": gen_leaf(rs, [[name, "int", size], ["a", "real", [2]]], int(rs.randint(0, 4)))}, both))
    return out


def tensor_with_neginf(rs, sizes, frac):
    a = np.round(rs.randn(*sizes), 3)
    mask = rs.rand(*sizes) < frac
    a[mask] = -np.inf
    return a


def tensor_sample_specs(rs, sizes_pool, reps=1):
    """every input count 1..3 with sizes from the pool (sorted multisets x orders), every subset sampled, 0..2 sample inputs"""
    out = []
    names = ["a", "b", "c"]
    for n in (1, 2, 3):
        for sizes in itertools.product(sizes_pool, repeat=n):
            tin = [(names[k], sizes[k]) for k in range(n)]
            for sub in subsets(names[:n]):
                for sin in ([], [["s", 2]], [["s", 3], ["t", 2]]):
                    for rep in range(reps):
                        frac = [0.0, 0.3, 0.6][int(rs.randint(3))]
                        data = tensor_with_neginf(rs, sizes, frac)
                        out.append(("tensor_sample:%s:%s:%d" % (list(sizes), "+".join(sub), len(sin)), {"tensor": {"data": enc(data), "inputs": [list(t) for t in tin]}, "sampled": sub, "sample_inputs": sin}))
    return out


def sub_rs(seed, idx):
    return np.random.RandomState((int(seed) * 7919 + 104729 * int(idx) + 17) % 4294967291)


def gaussian_sample_specs(seed, sig, keep=lambda idx: True):
    """(label, fragment); generation is per (subset, rank) combination with its own random state, combinations
    rejected by `keep` are not generated"""
    reals = [(n, tuple(s)) for n, k, s in sig if k == "real"]
    dimof = lambda sub: sum(prod(s) for _, s in sub)
    dim = dimof(reals)
    out = []
    idx = -1
    for B in subsets(reals):
        dB = dimof(B)
        for rank in sorted({r for r in rank_set(dim) if r >= dB and r <= 2 * dim}):
            if len(B) == len(reals) and rank < dim:
                continue
            idx += 1
            if not keep(idx):
                continue
            rs = sub_rs(seed, idx)
            leaf = gen_leaf(rs, sig, rank, blocks=True)
            for mode in ([], [["s", 2]], [["s", 3], ["t", 2]], "reparam"):
                ml = mode if mode == "reparam" else "bint%d" % len(mode)
                out.append(("gaussian_sample:%s:rank%d:%s" % ("+".join(n for n, _ in B), rank, ml), {"leaf": leaf, "sampled": [n for n, _ in B], "mode": mode}))
    return out


def mc_gaussian_specs(rs, sig):
    reals = [(n, tuple(s)) for n, k, s in sig if k == "real"]
    ints = [(n, s) for n, k, s in sig if k == "int"]
    dim = sig_dim(sig)
    out = []
    for rank in sorted({dim, dim + 1, 2 * dim}):
        leaf = gen_leaf(rs, sig, rank, blocks=True)
        n0, s0 = reals[0]
        X = ["var", n0, list(s0)]
        fs = [
            ("var", {"t": "expr", "expr": X}),
            ("affine", {"t": "expr", "expr": ["add", ["mul", const(rs, ()), X], const(rs, s0, ints[:1])]}),
            ("square", {"t": "expr", "expr": ["sum", ["mul", X, X]]}),
            ("gaussian", {"t": "leaf", "leaf": gen_leaf(rs, [[n, "real", list(s)] for n, s in reversed(reals)] + [[n, "int", s] for n, s in ints[:1]], rand_rank(rs, dim))}),
        ]
        for fl, f in fs:
            for sin in ([], [["s", 2]], [["s", 3], ["t", 2]]):
                out.append(("mc_gaussian:rank%d:%s:%d" % (rank, fl, len(sin)), {"leaf": leaf, "f": f, "sample_inputs": sin}))
    return out


def mixture_sample_specs(rs, sig):
    """(label, fragment): t + g with g full rank, sampled: ints only / reals only / both"""
    reals = [(n, tuple(s)) for n, k, s in sig if k == "real"]
    ints = [(n, s) for n, k, s in sig if k == "int"]
    if not ints:
        return []
    dim = sig_dim(sig)
    out = []
    for rank in sorted({dim, dim + 1}):
        leaf = gen_leaf(rs, sig, rank, blocks=True)
        for tin in [list(ints), ints[:1], list(reversed(ints))][: 1 + len(ints)]:
            for J in subsets(ints, 0):
                for B in ([], reals[:1], reals):
                    sampled = [n for n, _ in J] + [n for n, _ in B]
                    if not sampled:
                        continue
                    for sin in ([], [["s", 2]], [["s", 3], ["t", 2]]):
                        out.append(("mixture_sample:rank%d:t[%s]:%s:%d" % (rank, ",".join(n for n, _ in tin), "+".join(sampled), len(sin)), {"leaf": leaf, "tensor": tensor_spec(rs, tin), "sampled": sampled, "sample_inputs": sin}))
    return out


def c13_mixture_integrands(rs, sig):
    """(label, integrand, names, tensor) with a mixture measure t + g"""
    ints = [(n, s) for n, k, s in sig if k == "int"]
    newi = fresh(dict((n, 0) for n, _, _ in sig), FRESH_INT)
    out = []
    for tin in ([list(ints)] if ints else []) + [ints[:1] + [(newi[-1], 2)]]:
        for label, ig, names in c13_integrands(rs, sig)[::3]:
            out.append(("mixture[%s]:%s" % (",".join(n for n, _ in tin), label), ig, names, tensor_spec(rs, tin)))
    return out
