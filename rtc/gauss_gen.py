"""gauss_gen: enumeration of signatures / seeded generation of well-conditioned parameters for drv_gauss.
No funsor in here; everything produced is plain data understood by gauss_core.run_case."""
import itertools
from collections import OrderedDict

import numpy as np

from gauss_core import enc, prod

REAL_NAMES = ["x", "y", "z"]
INT_NAMES = ["i", "j"]


# ------------------------------------------------------------------------------------------------
# signatures


def interleavings(reals, ints):
    """all merges of the two sequences keeping the relative order inside each"""
    n, m = len(reals), len(ints)
    for pos in itertools.combinations(range(n + m), m):
        out, ri, ii = [], iter(reals), iter(ints)
        for k in range(n + m):
            out.append(next(ii) if k in pos else next(ri))
        yield out


def signatures(shapes, sizes, max_reals=3, max_ints=2, max_dim=None):
    """every signature: 1..max_reals real inputs with shapes from `shapes`, 0..max_ints batch inputs with sizes
    from `sizes`, every interleaving of int and real inputs"""
    for nr in range(1, max_reals + 1):
        for shp in itertools.product(shapes, repeat=nr):
            if max_dim is not None and sum(prod(s) for s in shp) > max_dim:
                continue
            reals = [[REAL_NAMES[k], "real", list(shp[k])] for k in range(nr)]
            for ni in range(0, max_ints + 1):
                for sz in itertools.product(sizes, repeat=ni):
                    ints = [[INT_NAMES[k], "int", sz[k]] for k in range(ni)]
                    for sig in interleavings(reals, ints):
                        yield sig


def sig_dim(sig):
    return sum(prod(s) for _, k, s in sig if k == "real")


def sig_batch(sig):
    return tuple(s for _, k, s in sig if k == "int")


def rank_set(dim):
    return sorted({r for r in (0, 1, dim - 1, dim, dim + 1, 2 * dim, 2 * dim + 1) if 0 <= r <= 2 * dim + 1})


# ------------------------------------------------------------------------------------------------
# well-conditioned parameters


def rand_orth(rs, n):
    if n == 0:
        return np.zeros((0, 0))
    q, r = np.linalg.qr(rs.randn(n, n))
    return q * np.sign(np.diag(r) + (np.diag(r) == 0))


def rand_prec_sqrt(rs, dim, rank):
    """dim x rank with all non-zero singular values in [0.7, 1.6]"""
    m = min(dim, rank)
    if m == 0:
        return np.zeros((dim, rank))
    U = rand_orth(rs, dim)
    V = rand_orth(rs, rank)
    s = rs.uniform(0.7, 1.6, size=m)
    return (U[:, :m] * s) @ V[:m, :]


def rand_pd(rs, dim):
    U = rand_orth(rs, dim)
    s = rs.uniform(0.5, 2.0, size=dim)
    return (U * s) @ U.T


def blocks_of(sig):
    out, off = [], 0
    for n, k, s in sig:
        if k == "real":
            out.append((n, off, off + prod(s)))
            off += prod(s)
    return out


def well_conditioned_blocks(S, sig, limit=200.0):
    """every union of real-input blocks whose dimension <= rank has a well-conditioned precision block"""
    blocks = blocks_of(sig)
    rank = S.shape[-1]
    for r in range(1, len(blocks) + 1):
        for sub in itertools.combinations(blocks, r):
            idx = np.concatenate([np.arange(a, b) for _, a, b in sub])
            if len(idx) > rank:
                continue
            Sb = S[idx, :]
            sv = np.linalg.svd(Sb, compute_uv=False)
            if sv.min() <= 0 or (sv.max() / sv.min()) ** 2 > limit:
                return False
    return True


def gen_leaf(rs, sig, rank=None, ctor=("white_vec", "prec_sqrt"), blocks=False):
    """leaf spec with seeded well-conditioned parameters for the given constructor parametrisation"""
    dim = sig_dim(sig)
    bshape = sig_batch(sig)
    loc, scale = ctor
    args = {}
    if scale == "prec_sqrt":
        S = np.zeros(bshape + (dim, rank))
        for b in np.ndindex(*bshape):
            for attempt in range(200):
                Sb = rand_prec_sqrt(rs, dim, rank)
                if not blocks or well_conditioned_blocks(Sb, sig):
                    break
            else:
                raise RuntimeError("no well conditioned draw")
            S[b] = Sb
        args["prec_sqrt"] = enc(S)
        r = rank
    else:
        M = np.zeros(bshape + (dim, dim))
        for b in np.ndindex(*bshape):
            A = rand_pd(rs, dim)
            M[b] = np.linalg.cholesky(A) if scale == "scale_tril" else A
        args[scale] = enc(M)
        r = dim
    if loc == "white_vec":
        args["white_vec"] = enc(rs.randn(*(bshape + (r,))))
    else:
        args[loc] = enc(rs.randn(*(bshape + (dim,))))
    return {"inputs": [list(t) for t in sig], "args": args}


CTORS = [
    ("white_vec", "prec_sqrt"),
    ("mean", "prec_sqrt"),
    ("info_vec", "prec_sqrt"),
    ("mean", "precision"),
    ("info_vec", "precision"),
    ("mean", "covariance"),
    ("info_vec", "covariance"),
    ("mean", "scale_tril"),
    ("info_vec", "scale_tril"),
]


# ------------------------------------------------------------------------------------------------
# operations applicable to an oracle signature  (inputs: OrderedDict name -> ("int", n) | ("real", shape))

FRESH_REAL = ["u", "v", "w"]
FRESH_INT = ["k", "m"]


def fresh(inputs, pool):
    return [n for n in pool if n not in inputs]


def real_value(rs, shape, inputs, kind):
    """substitution value for a real input of the given shape"""
    if kind == "num_real":
        return {"t": "num_real", "v": float(np.round(rs.randn(), 3))}
    if kind == "py_float":
        return {"t": "py_float", "v": float(np.round(rs.randn(), 3))}
    if kind == "tensor":
        return {"t": "tensor_real", "data": enc(rs.randn(*shape)), "inputs": []}
    if kind == "tensor_batch":  # depends on an existing batch input
        ints = [(n, d[1]) for n, d in inputs.items() if d[0] == "int"]
        n, s = ints[rs.randint(len(ints))]
        return {"t": "tensor_real", "data": enc(rs.randn(*((s,) + tuple(shape)))), "inputs": [[n, s]]}
    if kind == "tensor_newbatch":
        n = fresh(inputs, FRESH_INT)[0]
        s = int(rs.randint(1, 4))
        return {"t": "tensor_real", "data": enc(rs.randn(*((s,) + tuple(shape)))), "inputs": [[n, s]]}
    raise ValueError(kind)


def const(rs, shape, inputs=()):
    bs = tuple(s for _, s in inputs)
    return ["const", enc(np.round(rs.uniform(0.5, 2.0, size=bs + tuple(shape)) * rs.choice([-1, 1], size=bs + tuple(shape)), 3)), [list(t) for t in inputs]]


def affine_exprs(rs, shape, inputs, target):
    """list of (label, expr) affine expressions of output shape `shape` over fresh real variables (and
    existing inputs other than `target`)"""
    shape = tuple(shape)
    fr = fresh(inputs, FRESH_REAL)
    u, v = fr[0], fr[1]
    ints = [(n, d[1]) for n, d in inputs.items() if d[0] == "int"]
    out = []
    U = ["var", u, list(shape)]
    V = ["var", v, list(shape)]
    out.append(("scale_shift", ["add", ["mul", const(rs, ()), U], const(rs, shape)]))
    out.append(("two_vars", ["add", ["mul", const(rs, ()), U], V]))
    out.append(("sub_neg_div", ["div", ["neg", ["sub", U, V]], const(rs, ())]))
    if ints:
        out.append(("batched_coeff", ["add", ["mul", U, const(rs, shape, [ints[0]])], const(rs, shape, [ints[-1]])]))
    newb = fresh(inputs, FRESH_INT)
    if newb:
        out.append(("newbatch_const", ["add", U, const(rs, shape, [(newb[0], 2)])]))
    same = [n for n, d in inputs.items() if d == ("real", shape) and n != target]
    if same:
        out.append(("existing_var", ["add", ["var", same[0], list(shape)], ["mul", const(rs, ()), U]]))
    out.append(("getitem", ["getitem", ["var", u, [2] + list(shape)], 1]))
    if shape == ():
        out.append(("sum", ["sum", ["var", u, [2]]]))
        out.append(("dot", ["matmul", ["var", u, [2]], const(rs, (2,))]))
    else:
        n = prod(shape)
        out.append(("reshape", ["reshape", ["var", u, [n]], list(shape)]))
        if len(shape) == 1:
            out.append(("vec_mat", ["matmul", ["var", u, [3]], const(rs, (3, shape[0]))]))
            out.append(("mat_vec", ["add", ["matmul", const(rs, (shape[0], 2)), ["var", u, [2]]], V]))
        if len(shape) == 2:
            out.append(("mat_mat", ["matmul", U, const(rs, (shape[1], shape[1]))]))
    return out


def enumerate_steps(rs, inputs):
    """a systematic list of (label, step) over every supported operation kind, for a value with `inputs`"""
    inputs = OrderedDict(inputs)
    reals = [(n, d[1]) for n, d in inputs.items() if d[0] == "real"]
    ints = [(n, d[1]) for n, d in inputs.items() if d[0] == "int"]
    steps = []

    # --- real substitution: every non-empty subset of real inputs; value kinds rotate
    kinds = ["tensor", "tensor_newbatch"] + (["tensor_batch"] if ints else [])
    for r in range(1, len(reals) + 1):
        for sub in itertools.combinations(reals, r):
            for kind in kinds:
                subs = OrderedDict()
                for (n, s) in sub:
                    subs[n] = real_value(rs, s, inputs, kind)
                steps.append(("subs_real:%s:%s" % (kind, "+".join(n for n, _ in sub)), {"op": "subs", "subs": subs}))
    for (n, s) in reals:
        if s == ():
            steps.append(("subs_real:num_real:" + n, {"op": "subs", "subs": {n: real_value(rs, s, inputs, "num_real")}}))
            steps.append(("subs_real:py_float:" + n, {"op": "subs", "subs": {n: real_value(rs, s, inputs, "py_float")}}))

    # --- int substitution
    newi = fresh(inputs, FRESH_INT)
    for (n, s) in ints:
        for v in sorted({0, s - 1}):
            steps.append(("subs_int:num:%s=%d" % (n, v), {"op": "subs", "subs": {n: {"t": "num_int", "v": v}}}))
        steps.append(("subs_int:py:%s" % n, {"op": "subs", "subs": {n: {"t": "py_int", "v": int(rs.randint(s))}}}))
        m = int(rs.randint(1, 4))
        steps.append(("subs_int:tensor_new:%s" % n, {"op": "subs", "subs": {n: {"t": "tensor_int", "data": enc(rs.randint(s, size=m)), "inputs": [[newi[0], m]]}}}))
        others = [(k, t) for k, t in ints if k != n]
        if others:
            k, t = others[0]
            steps.append(("subs_int:tensor_existing:%s" % n, {"op": "subs", "subs": {n: {"t": "tensor_int", "data": enc(rs.randint(s, size=t)), "inputs": [[k, t]]}}}))
        for start in range(s):
            for step_ in range(1, s + 1):
                for stop in sorted({s, max(start + 1, s - 1)}):
                    if len(range(start, stop, step_)) >= 1:
                        for nm in (n, newi[0]):
                            steps.append(("subs_int:slice:%s[%d:%d:%d]->%s" % (n, start, stop, step_, nm), {"op": "subs", "subs": {n: {"t": "slice", "name": nm, "start": start, "stop": stop, "step": step_}}}))
    if len(ints) == 2:
        steps.append(("subs_int:both", {"op": "subs", "subs": OrderedDict((n, {"t": "num_int", "v": int(rs.randint(s))}) for n, s in ints)}))

    # --- renaming
    fr = fresh(inputs, FRESH_REAL)
    for (n, s) in reals:
        steps.append(("rename_real:var:" + n, {"op": "subs", "subs": {n: {"t": "var", "name": fr[0]}}}))
        steps.append(("rename_real:str:" + n, {"op": "subs", "subs": {n: {"t": "str", "name": fr[1]}}}))
    for (n, s) in ints:
        steps.append(("rename_int:var:" + n, {"op": "subs", "subs": {n: {"t": "var", "name": newi[0]}}}))
        steps.append(("rename_int:str:" + n, {"op": "subs", "subs": {n: {"t": "str", "name": newi[-1]}}}))
    same = [(a, b) for a, b in itertools.combinations(reals, 2) if a[1] == b[1]]
    for a, b in same[:1]:
        steps.append(("rename_swap:%s<->%s" % (a[0], b[0]), {"op": "subs", "subs": OrderedDict([(a[0], {"t": "var", "name": b[0]}), (b[0], {"t": "var", "name": a[0]})])}))
    if reals and ints:
        steps.append(("rename_mixed", {"op": "subs", "subs": OrderedDict([(reals[0][0], {"t": "str", "name": fr[0]}), (ints[0][0], {"t": "str", "name": newi[0]})])}))

    # --- affine substitution
    for (n, s) in reals:
        for label, e in affine_exprs(rs, s, inputs, n):
            steps.append(("affine:%s:%s" % (label, n), {"op": "subs", "subs": {n: {"t": "affine", "expr": e}}}))
    if len(reals) >= 2:
        (a, sa), (b, sb) = reals[0], reals[1]
        u = fr[0]
        ea = ["add", ["var", u, list(sa)], const(rs, sa)]
        eb = ["mul", const(rs, ()), ["var", u, list(sb)]] if sa == sb else ["mul", const(rs, ()), ["var", fr[1], list(sb)]]
        steps.append(("affine:two_targets", {"op": "subs", "subs": OrderedDict([(a, {"t": "affine", "expr": ea}), (b, {"t": "affine", "expr": eb})])}))
        # mixed branches in one call: real value + affine (+ int)
        mixed = OrderedDict([(a, real_value(rs, sa, inputs, "tensor")), (b, {"t": "affine", "expr": eb})])
        if ints:
            mixed[ints[0][0]] = {"t": "num_int", "v": 0}
        steps.append(("subs_mixed:real+affine" + ("+int" if ints else ""), {"op": "subs", "subs": mixed}))
        mixed2 = OrderedDict([(a, {"t": "var", "name": fr[2]}), (b, real_value(rs, sb, inputs, "tensor"))])
        steps.append(("subs_mixed:var+real", {"op": "subs", "subs": mixed2}))

    # --- align: every permutation of (up to 4) names, plus prefixes
    names = list(inputs)
    perms = list(itertools.permutations(names))
    if len(perms) > 24:
        perms = [perms[k] for k in sorted(rs.choice(len(perms), size=24, replace=False))]
    for pm in perms:
        steps.append(("align:" + ",".join(pm), {"op": "align", "names": list(pm)}))
    if len(names) >= 2:
        steps.append(("align_prefix:" + names[-1], {"op": "align", "names": [names[-1]]}))

    return steps


def sig_from_inputs(inputs):
    return [[n, "int", d[1]] if d[0] == "int" else [n, "real", list(d[1])] for n, d in inputs.items()]


def partner_sigs(rs, inputs, count=4):
    """signatures for a second Gaussian sharing names (and domains) with `inputs`: same; subset of reals +
    a new real; different batch inputs; different order"""
    inputs = OrderedDict(inputs)
    reals = [[n, "real", list(d[1])] for n, d in inputs.items() if d[0] == "real"]
    ints = [[n, "int", d[1]] for n, d in inputs.items() if d[0] == "int"]
    out = []
    out.append(("same", sig_from_inputs(inputs)))
    out.append(("reversed", list(reversed(sig_from_inputs(inputs)))))
    fr = fresh(inputs, REAL_NAMES + FRESH_REAL)
    newr = [fr[0], "real", [[], [2], [2, 2]][rs.randint(3)]]
    out.append(("real_subset+new", [newr] + reals[:1] + ints[-1:]))
    fi = fresh(inputs, INT_NAMES + FRESH_INT)
    out.append(("other_batch", [[fi[0], "int", int(rs.randint(1, 4))]] + reals[-1:] + ints[:1]))
    if len(reals) > 1:
        out.append(("reals_permuted_nobatch", list(reversed(reals))))
    return out
