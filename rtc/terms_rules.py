"""C02 rule_firing: run-time contracts on every registered rewrite rule of the exact interpretations.

``install()`` replaces the INSTANCE attribute ``.dispatch`` of every ``DispatchedInterpretation`` object
(eager_base, normalize_base, lazy_base, sequential_base, optimizer.unfold_base, optimizer.optimize_base);
``DispatchedInterpretation.interpret`` calls ``self.dispatch(cls, *args)(*args)``, and
``PrioritizedInterpretation.dispatch`` forwards to its first sub-interpretation, so every firing -- including the
internal ``eager.dispatch(...)`` calls of cnf.py -- goes through the wrapper.  Nothing in /repo is edited.

Contract of a firing ``result = rule(*args)`` for ``(cls, args)``:

    result is None   or   result is reflect(cls, *args)   [identity, not counted]   or
    ( inputs(result) subset of inputs(reflected)  and
      den(result)(env) == den(reflected)(env) at every point of the finite integer input space of the reflected
      term (x sample points of real inputs) )

evaluated only when both terms are inside den's fragment (else skipped and counted).  Other drivers can use this
module too: ``col = install(); ...workload...; uninstall(); col.failures / col.fired``.
"""
import sys
from collections import Counter

import numpy as np

import funsor
import funsor.optimizer
from funsor import interpretations as I
from funsor.interpretations import reflect
from funsor.interpreter import reinterpret
from funsor.registry import PartialDefault
from funsor.terms import Funsor

import terms_contracts as TC
import terms_den as D

INTERPS = [
    ("eager", I.eager_base),
    ("normalize", I.normalize_base),
    ("lazy", I.lazy_base),
    ("sequential", I.sequential_base),
    ("unfold", funsor.optimizer.unfold_base),
    ("optimize", funsor.optimizer.optimize_base),
]
MAX_POINTS = 64


def rule_name(fn):
    fn = getattr(fn, "__wrapped__", fn)
    code = getattr(fn, "__code__", None)
    return "%s:%s:%s" % (getattr(fn, "__module__", "?"), getattr(fn, "__qualname__", repr(fn)),
                         code.co_firstlineno if code else "?")


def registered_rules():
    """{rule name: sorted list of interpretation names it is registered with}"""
    rules = {}
    for iname, interp in INTERPS:
        for key, disp in interp.registry.registry.items():
            for sig, fn in disp.funcs.items():
                if isinstance(fn, PartialDefault):
                    continue
                rules.setdefault(rule_name(fn), set()).add(iname)
    return {k: sorted(v) for k, v in rules.items()}


class Collector:
    def __init__(self, seed=0):
        self.seed = seed
        self.fired_any = Counter()  # rule -> calls that returned non-None
        self.identity = Counter()  # rule -> result was the reflected term itself
        self.fired = Counter()  # rule -> non-identity rewrites
        self.evaluated = Counter()  # rule -> postcondition evaluations
        self.points = 0
        self.skipped = Counter()
        self.failures = []  # dicts
        self.fail_count = Counter()
        self.seen = set()
        self.keep = []  # keeps compared terms alive so that ids stay unique
        self.context = None
        self.samples = []
        self.busy = False
        self.distinct = set()


_STATE = {"collector": None, "saved": None}


def set_context(ctx):
    col = _STATE["collector"]
    if col is not None:
        col.context = ctx


def _check(col, iname, cls, fn, args, result):
    name = rule_name(fn)
    col.fired_any[name] += 1
    try:
        with reflect:
            ref = reflect.interpret(cls, *args)
    except Exception as exc:
        ref = _fallback_reference(cls, args)
        if ref is None:
            col.skipped["reflect_raised:" + type(exc).__name__] += 1
            return
        col.skipped["note:reference_built_by_fallback"] += 1
    if result is ref:
        col.identity[name] += 1
        return
    col.fired[name] += 1
    if not isinstance(result, Funsor) or not isinstance(ref, Funsor):
        col.skipped["non_funsor_result"] += 1
        return
    key = (name, id(ref), id(result))
    if key in col.seen:
        return
    col.seen.add(key)
    col.keep.append((ref, result))
    if not (D.supported(ref) and D.supported(result)):
        col.skipped["outside_den_fragment"] += 1
        return
    why = outside_carrier(ref, result)
    if why:
        col.skipped["outside_carrier: " + why] += 1
        return
    out = TC.Outcome()
    ctx = col.context or {}
    tags = (name, "interp:" + iname, "cls:" + getattr(cls, "__name__", str(cls))) + tuple(
        t for t in ctx.get("tags", ()) if "-" in t)
    off = TC.inputs_subset(result, ref)
    if off:
        out.bad("C02.rule_preserves_value", "rule result has inputs %s, the term it replaces has %s"
                % (dict(result.inputs), dict(ref.inputs)), tags)
    else:
        oracle = TC.Oracle(ref, col.seed)
        if not oracle.ok:
            col.skipped[oracle.error[:40]] += 1
            return
        if len(oracle.envs) > MAX_POINTS:
            idx = np.random.RandomState(col.seed).choice(len(oracle.envs), MAX_POINTS, replace=False)
            oracle.envs = [oracle.envs[i] for i in idx]
            oracle.values = [oracle.values[i] for i in idx]
        if not TC.same_domain(result.output, ref.output):
            out.notes.append("output domain differs")
        n = TC.compare_pointwise(out, "C02.rule_preserves_value", result, oracle, tags, "rule result")
        col.points += n
        if not n and not out.violations:
            for k, v in out.skipped.items():
                col.skipped[k[:40]] += v
            return
    col.evaluated[name] += 1
    col.distinct.add((name, ctx.get("src", "")[:200], len(col.seen)))
    if len(col.samples) < 3:
        col.samples.append(dict(rule=name, replaced=repr(ref)[:160], by=repr(result)[:160]))
    for contract, detail, vtags in out.violations:
        col.fail_count[name] += 1
        if col.fail_count[name] <= 6:
            col.failures.append(dict(contract=contract, rule=name, detail=detail, tags=list(vtags),
                                     replaced=repr(ref)[:500], by=repr(result)[:500], context=dict(ctx)))


NEGATIVE_PRODUCING = {"neg", "sub", "log", "lgamma", "invert", "safesub"}
MULTIPLICATIVE = {"mul", "truediv", "reciprocal", "pow", "safediv"}


def outside_carrier(*terms):
    """The property restricts rule soundness to the carrier of the semiring the rule relies on:
    non-negative data where max/min is paired with mul, booleans for or/and.  Returns a reason string when
    a term pairs these ops outside that carrier (the firing is then skipped and counted), else None."""
    op_names = set()
    negative_leaf = False
    nonbool_bitop = False
    seen = set()
    stack = list(terms)
    while stack:
        x = stack.pop()
        if isinstance(x, Funsor):
            if id(x) in seen:
                continue
            seen.add(id(x))
            for attr in ("op", "red_op", "bin_op"):
                o = getattr(x, attr, None)
                name = getattr(o, "name", None)
                if name:
                    op_names.add(name)
                    if name in ("and_", "or_", "xor"):
                        kids = [v for v in x._ast_values if isinstance(v, Funsor)]
                        for v in x._ast_values:
                            if isinstance(v, tuple):
                                kids += [w for w in v if isinstance(w, Funsor)]
                        if any(getattr(k.output, "dtype", 2) != 2 for k in kids):
                            nonbool_bitop = True
            data = getattr(x, "data", None)
            if data is not None and type(x).__name__.startswith(("Tensor", "Number")):
                try:
                    if np.any(np.asarray(data) < 0):
                        negative_leaf = True
                except TypeError:
                    pass
            stack.extend(x._ast_values)
        elif isinstance(x, (tuple, frozenset)):
            stack.extend(x)
    if nonbool_bitop:
        return "or/and/xor on non-booleans"
    if op_names & {"max", "min"} and op_names & MULTIPLICATIVE:
        if negative_leaf or op_names & NEGATIVE_PRODUCING:
            return "max/min paired with mul on possibly negative data"
    return None


def _fallback_reference(cls, args):
    """a term with the textbook meaning of cls(*args) when reflect refuses to construct cls(*args) itself:
    * Reduce over a variable its argument does not mention (KeyError in Reduce._alpha_convert)
      -> Contraction(op, null, vars, arg), whose den ranges over the whole domain of every reduced variable;
    * Contraction(red, bin, vars, terms) with a non-distributive (red, bin) pair (AssertionError in __init__)
      -> Reduce(red, Binary(bin, ...terms...), vars), the definition of a contraction."""
    from funsor import ops
    from funsor.cnf import Contraction
    from funsor.terms import Binary, Reduce

    name = getattr(cls, "__name__", "")
    try:
        with reflect:
            if name == "Reduce" and len(args) == 3:
                op, arg, rvars = args
                return reflect.interpret(Contraction, op, ops.null, rvars, (arg,))
            if name == "Contraction" and len(args) >= 4:
                red_op, bin_op, rvars = args[:3]
                terms = args[3] if len(args) == 4 and isinstance(args[3], tuple) else tuple(args[3:])
                if bin_op is ops.null or red_op is ops.null or not terms:
                    return None
                body = terms[0]
                for t in terms[1:]:
                    body = reflect.interpret(Binary, bin_op, body, t)
                missing = [v for v in rvars if v.name not in body.inputs]
                if missing or not rvars:
                    return None
                return reflect.interpret(Reduce, red_op, body, rvars)
    except Exception:
        return None
    return None


def _wrap_dispatch(col, iname, orig):
    def dispatch(cls, *args):
        fn = orig(cls, *args)

        def checked(*a):
            result = fn(*a)
            if result is not None and not col.busy:
                col.busy = True
                try:
                    _check(col, iname, cls, fn, a, result)
                except RecursionError:
                    col.skipped["recursion"] += 1
                finally:
                    col.busy = False
            return result

        return checked

    return dispatch


def install(seed=0):
    assert _STATE["collector"] is None, "already installed"
    col = Collector(seed)
    saved = []
    for iname, interp in INTERPS:
        saved.append((interp, interp.dispatch))
        interp.dispatch = _wrap_dispatch(col, iname, interp.dispatch)
    _STATE["collector"] = col
    _STATE["saved"] = saved
    return col


def uninstall():
    for interp, orig in _STATE["saved"] or []:
        interp.dispatch = orig
    _STATE["collector"] = None
    _STATE["saved"] = None


def harvest(col, new_result):
    """RtcResult of the rule contracts observed by a collector"""
    res = new_result("C02")
    res.extra = {"fired": Counter(col.fired), "fired_any": Counter(col.fired_any), "identity": Counter(col.identity),
                 "evaluated": Counter(col.evaluated), "rule_failures": Counter(col.fail_count),
                 "points": Counter({"points": col.points})}
    for key in col.distinct:
        res.evaluated("C02.rule_preserves_value", key, True)
    for s in col.samples:
        if len(res.samples) < 3:
            res.samples.append(s)
    res.skip_counter.update(col.skipped)
    for f in col.failures:
        res.fail_total += 1
        ctx = f["context"]
        res.fail(f["contract"], dict(rule=f["rule"], replaced=f["replaced"], by=f["by"],
                                     workload=ctx.get("src") or (ctx.get("case") or {}).get("src")),
                 f["detail"], replay_script(f), f["tags"])
    return res


def optimizer_workload(term):
    """drive unfold / optimize over a lazily built term (value checks of the passes themselves are C08's)"""
    if term is None:
        return
    try:
        with funsor.optimizer.unfold:
            reinterpret(term)
    except Exception:
        TC.ensure_default_stack()
    try:
        funsor.optimizer.apply_optimizer(term)
    except Exception:
        TC.ensure_default_stack()
    try:
        with I.normalize:
            n = reinterpret(term)
        funsor.optimizer.apply_optimizer(n)
    except Exception:
        TC.ensure_default_stack()


def replay_script(failure):
    ctx = failure["context"]
    return (
        "import sys, os\nsys.path.insert(0, os.environ.get('VERIF_REPO', '/repo')); sys.path.insert(0, '/verif/rtc')\n"
        "import terms_rules as R\n"
        "CONTEXT = %r\nRULE = %r\n" % (ctx, failure["rule"])
        + "# re-runs the workload case that drove the rule, with the dispatch wrappers installed\n"
        + "failures = R.replay(CONTEXT, RULE)\n"
        + "for f in failures:\n    print('VIOLATION', f['rule'], f['detail'])\n    print('   replaced:', f['replaced'])\n    print('   by      :', f['by'])\n"
        + "sys.exit(1 if failures else 0)\n"
    )


def replay(ctx, rule):
    import terms_cases as TK
    import terms_gen as G

    ns = G.namespace(ctx.get("fill", "arange"), ctx.get("seed", 0))
    col = install(ctx.get("seed", 0))
    try:
        set_context(ctx)
        run_workload(ns, ctx)
    finally:
        uninstall()
    return [f for f in col.failures if f["rule"] == rule]


EXTRA_SOURCES = [
    # constructors outside the generated term language, to drive their rules at least once
    "Tensor(fill((2, 3), 5), OrderedDict([('i', Bint[2]), ('j', Bint[3])])).approximate(ops.logaddexp, Tensor(fill((2, 3), 6), OrderedDict([('i', Bint[2]), ('j', Bint[3])])), 'j')",
    "Binary(ops.mul, Tensor(fill((2, 3), 5), OrderedDict([('i', Bint[2]), ('j', Bint[3])])), Variable('x', Real)).approximate(ops.add, Tensor(fill((2,), 1), OrderedDict([('i', Bint[2])])), 'i')",
    "Binary(ops.add, Unary(ops.exp, Binary(ops.mul, Tensor(fill((2, 3), 5), OrderedDict([('i', Bint[2]), ('j', Bint[3])])), Variable('x', Real))).align(('x', 'j', 'i')), Tensor(fill((3,), 2), OrderedDict([('j', Bint[3])])))",
    "Binary(ops.mul, Tensor(fill((3,), 2), OrderedDict([('j', Bint[3])])), Unary(ops.exp, Binary(ops.mul, Tensor(fill((2, 3), 5), OrderedDict([('i', Bint[2]), ('j', Bint[3])])), Variable('x', Real))).align(('j', 'x', 'i')))",
    "Binary(ops.add, Unary(ops.exp, Variable('x', Real)).align(('x',)), Unary(ops.log, Binary(ops.mul, Tensor(fill((2,), 1), OrderedDict([('i', Bint[2])])), Variable('x', Real))).align(('x', 'i')))",
    "Unary(ops.exp, Binary(ops.mul, Tensor(fill((2, 3), 5), OrderedDict([('i', Bint[2]), ('j', Bint[3])])), Variable('x', Real))).align(('j', 'i'))(x=0.5)",
    "funsor.terms.Tuple((Tensor(fill((2,), 1), OrderedDict([('i', Bint[2])])), Tensor(fill((2, 3), 5), OrderedDict([('i', Bint[2]), ('j', Bint[3])]))))[1]",
    "funsor.terms.Tuple((Tensor(fill((2,), 1), OrderedDict([('i', Bint[2])])), Number(2.0), Variable('x', Real)))[0:2]",
    "Unary(ops.add, Tensor(fill((), 0), OrderedDict([])))",
    "Independent(Binary(ops.mul, Tensor(fill((2,), 1), OrderedDict([('i', Bint[2])])), Variable('x', Real)), 'z', 'i', 'x')(z=Tensor(fill((2,), 7), OrderedDict([])))",
    "Tensor(fill((2, 3), 5), OrderedDict([('i', Bint[2]), ('j', Bint[3])]))(i=Variable('p', Bint[2]))(p=1)",
]


def run_workload(ns, ctx):
    """the piece of workload identified by a context dict (also used by the driver's C02 workers)"""
    import terms_cases as TK

    kind = ctx["kind"]
    seed = ctx.get("seed", 0)
    if kind == "expr":
        case = TC.Case(ns, ctx["src"], seed, ctx.get("ref"))
        meta = dict(tags=ctx.get("tags", ()), core_ground=False)
        TC.check_c01(case, meta)
        TC.check_c03(case, meta, ctx.get("contexts", ["lazy", "normalize", "memoize"]))
        optimizer_workload(case.lazy)
        try:
            with I.lazy:
                t = eval(ctx["src"], ns)
            optimizer_workload(t)
        except Exception:
            TC.ensure_default_stack()
    elif kind == "c04":
        TK.check_c04(ns, ctx["case"], seed)
    elif kind == "c05":
        TK.check_c05(ns, ctx["case"], seed)
    else:
        raise ValueError(kind)
