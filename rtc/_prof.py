import sys, time, collections, cProfile, pstats
sys.path.insert(0, "/verif/rtc")
import numpy as np
import gauss_core as C, gauss_gen as G
rs = np.random.RandomState(0)
sig=[['i','int',2],['x','real',[]],['j','int',3],['y','real',[2]]]
specs=[]
for rank in G.rank_set(3):
    leaf=G.gen_leaf(rs, sig, rank)
    O=C.orc_leaf(leaf)
    for label, step in G.enumerate_steps(rs, O.inputs):
        specs.append({"kind":"chain","leaf":leaf,"ops":[step],"pseed":len(specs)})
print(len(specs))
def go():
    for s in specs: C.run_case(s)
t0=time.time()
cProfile.run("go()", "/verif/rtc/_prof.out")
print(time.time()-t0)
pstats.Stats("/verif/rtc/_prof.out").sort_stats("cumulative").print_stats(35)
