"""Case enumerations and contracts for C06(a) (op catalogue vs find_domain), C04 (substitution) and
C05 (binders).  Same conventions as terms_contracts: a ``check_*`` function evaluates the contract on
one case with the real funsor code and returns an ``Outcome``; replay scripts call the same function."""
import itertools
from collections import OrderedDict

import numpy as np

import funsor
from funsor import ops
from funsor.domains import Array, find_domain
from funsor.interpretations import eager, lazy, normalize, reflect
from funsor.terms import Funsor

import terms_den as D
import terms_gen as G
from terms_contracts import (
    Oracle,
    Outcome,
    build,
    compare_pointwise,
    ensure_default_stack,
    inputs_subset,
    observe,
    same_domain,
    short_exc,
)

# ----------------------------------------------------------------------------------------------
# C06(a): find_domain(op, *domains) against what the op returns on concrete numpy arrays

POINTWISE_UNARY = ["abs", "neg", "pos", "invert", "exp", "log", "log1p", "sqrt", "tanh", "atanh", "sigmoid",
                   "reciprocal", "lgamma", "SoftplusOp()", "isnan", "detach", "safesub", "safediv"][:-2]
POINTWISE_BINARY = ["add", "sub", "mul", "truediv", "floordiv", "mod", "pow", "max", "min", "logaddexp", "and_",
                    "or_", "xor", "lshift", "rshift", "eq", "ne", "lt", "le", "gt", "ge"]
REDUCTION_CLASSES = ["AllOp", "AnyOp", "AmaxOp", "AminOp", "SumOp", "ProdOp", "LogsumexpOp", "MeanOp", "StdOp", "VarOp",
                     "ArgmaxOp", "ArgminOp"]
# ops whose static domain comes from a dedicated rule (everything else falls to the generic pointwise rules)
DEDICATED = {"add", "mul", "max", "min", "floordiv", "mod", "eq", "ne", "lt", "le", "gt", "ge", "log", "exp"}
ASTYPES = ["float32", "float64", "bool", "int32", "int64", "uint8"]


def shapes(max_rank, max_size):
    out = [()]
    for r in range(1, max_rank + 1):
        out += list(itertools.product(range(1, max_size + 1), repeat=r))
    return out


def dom_src(d):
    size, shape = d
    return "Array[%r, %r]" % (size, tuple(shape))


def c06a_cases(tier):
    """yield (op_src, [domain, ...], finitary, tags)"""
    quick = tier == "quick"
    max_rank, max_size = (2, 3) if quick else (3, 4)
    shp = shapes(max_rank, max_size)
    bsizes = [1, 2, 3] if quick else [1, 2, 3, 4]
    # pointwise unary
    for name in POINTWISE_UNARY:
        for s in shp:
            yield "ops.%s" % name, [("real", s)], False, ("unary", name)
            for n in bsizes:
                yield "ops.%s" % name, [(n, s)], False, ("unary", name)
    # pointwise binary: all shape pairs of rank <= 2 (quick) / all pairs with total rank <= 4 (thorough)
    for name in POINTWISE_BINARY:
        for s1 in shp:
            for s2 in shp:
                if not quick and len(s1) + len(s2) > 4:
                    continue
                yield "ops.%s" % name, [("real", s1), ("real", s2)], False, ("binary", name)
                small = (s1, s2) in (((), ()), ((2,), ()), ((), (2,)), ((2,), (2,)), ((1, 2), (2, 1)))
                for n in bsizes:
                    for m in bsizes:
                        if small or (n, m) in ((2, 3), (3, 2)):
                            yield "ops.%s" % name, [(n, s1), (m, s2)], False, ("binary", name)
                if small:
                    yield "ops.%s" % name, [("real", s1), (2, s2)], False, ("binary", name, "mixed")
                    yield "ops.%s" % name, [(3, s1), ("real", s2)], False, ("binary", name, "mixed")
    # matmul
    for s1 in shp:
        for s2 in shp:
            if s1 and s2 and len(s1) + len(s2) <= 5:
                yield "ops.matmul", [("real", s1), ("real", s2)], False, ("binary", "matmul")
    # output reductions (axis / keepdims)
    for cls in REDUCTION_CLASSES:
        for s in shp:
            r = len(s)
            axes = [None] + list(range(-r, r)) + [r, -r - 1]
            if r >= 2:
                axes += [(0, 1), (-1, 0), (-1, -2)]
            if r >= 3:
                axes += [(0, 2), (0, 1, 2)]
            for ax in axes:
                for kd in (False, True):
                    if cls in ("StdOp", "VarOp"):
                        src = "ops.%s(%r, 0, %r)" % (cls, ax, kd)
                    else:
                        src = "ops.%s(%r, %r)" % (cls, ax, kd)
                    yield src, [("real", s)], False, ("reduction", cls)
                    yield src, [(2, s)], False, ("reduction", cls)
                    if not quick:
                        yield src, [(3, s)], False, ("reduction", cls)
    # reshape
    for s in shp:
        n = int(np.prod(s)) if s else 1
        for t in shp + [(n,), (1, n), (n, 1)]:
            if (int(np.prod(t)) if t else 1) == n:
                yield "ops.ReshapeOp(%r)" % (tuple(t),), [("real", s)], False, ("reshape",)
                yield "ops.ReshapeOp(%r)" % (tuple(t),), [(3, s)], False, ("reshape",)
    # getitem(offset)
    for s in shp:
        for off in range(len(s)):
            yield "ops.GetitemOp(%d)" % off, [("real", s), (s[off], ())], False, ("getitem",)
            yield "ops.GetitemOp(%d)" % off, [(3, s), (s[off], ())], False, ("getitem",)
    # getslice
    parts = [0, -1, 1, slice(None), slice(1, None), slice(None, -1), slice(None, None, 2), slice(0, 2), slice(-2, None),
             slice(None, None, -1), slice(5, None), slice(2, 1), None, Ellipsis]
    for s in shp:
        r = len(s)
        idxs = list(parts)
        idxs += [(p,) for p in parts]
        if r >= 1:
            idxs += list(itertools.product(parts, repeat=2))
        if r >= 2 and not quick:
            idxs += [(a, b, c) for a in parts[:6] + [None, Ellipsis] for b in parts[:6] + [Ellipsis] for c in parts[:4] + [None]]
        for ix in idxs:
            if isinstance(ix, tuple) and sum(1 for x in ix if x is Ellipsis) > 1:
                continue
            yield "ops.GetsliceOp(%s)" % G._slice_src(ix), [("real", s)], False, ("getslice",)
    # stack / cat
    for s in shp:
        r = len(s)
        for nparts in (1, 2, 3):
            for dim in range(-r - 1, r + 1):
                yield "ops.StackOp(%d)" % dim, [("real", s)] * nparts, True, ("stack",)
            yield "ops.StackOp(0)", [(2, s)] * nparts, True, ("stack",)
        if r:
            for ax in range(-r, r):
                for nparts in (1, 2, 3):
                    yield "ops.CatOp(%d)" % ax, [("real", s)] * nparts, True, ("cat",)
                a = ax % r
                other = tuple(d + 1 if i == a else d for i, d in enumerate(s))
                yield "ops.CatOp(%d)" % ax, [("real", s), ("real", other)], True, ("cat",)
                yield "ops.CatOp(%d)" % ax, [(3, s), (3, other), (3, s)], True, ("cat",)
    yield "ops.StackOp(0)", [("real", ()), ("real", (2,))], True, ("stack", "broadcast")
    yield "ops.StackOp(-1)", [("real", (2,)), ("real", ())], True, ("stack", "broadcast")
    # einsum
    for s1 in shp:
        for s2 in shp:
            if 1 <= len(s1) <= 2 and 1 <= len(s2) <= 2:
                for eq, _ in G.einsum_equations(s1, s2):
                    yield "ops.EinsumOp(%r)" % eq, [("real", s1), ("real", s2)], True, ("einsum",)
        if len(s1) == 2:
            for eq in ("ab->ba", "ab->a", "ab->", "ab->b") + (("aa->a", "aa->") if s1[0] == s1[1] else ()):
                yield "ops.EinsumOp(%r)" % eq, [("real", s1)], True, ("einsum",)
        if len(s1) == 1:
            for eq in ("a->", "a->a"):
                yield "ops.EinsumOp(%r)" % eq, [("real", s1)], True, ("einsum",)
    # astype
    for dt in ASTYPES:
        for s in shp[:8]:
            yield "ops.AstypeOp(%r)" % dt, [("real", s)], False, ("astype", dt)
            for n in bsizes:
                yield "ops.AstypeOp(%r)" % dt, [(n, s)], False, ("astype", dt)
    # shape-changing array helpers that are unary ops of the catalogue
    for s in shp:
        r = len(s)
        if r >= 2:
            yield "ops.TransposeOp(0, 1)", [("real", s)], False, ("arrayop", "transpose")
            yield "ops.TransposeOp(-1, -2)", [("real", s)], False, ("arrayop", "transpose")
            yield "ops.DiagonalOp(0, 1)", [("real", s)], False, ("arrayop", "diagonal")
        for d in range(-r - 1, r + 1):
            yield "ops.UnsqueezeOp(%d)" % d, [("real", s)], False, ("arrayop", "unsqueeze")
        if r:
            yield "ops.FlipOp(0)", [("real", s)], False, ("arrayop", "flip")


def _arrays_for(domains, rng):
    """argument tuples: every combination of bounded-int values when all operands are scalars-or-small,
    plus one seeded random fill"""
    sets = []
    rand = []
    for size, shape in domains:
        if size == "real":
            rand.append(rng.uniform(0.2, 0.9, size=shape) * rng.choice([-1.0, 1.0], size=shape))
        else:
            rand.append(rng.randint(0, size, size=shape).astype(np.int64))
    sets.append(tuple(rand))
    # positive reals too (log / sqrt / pow well defined)
    if any(size == "real" for size, _ in domains):
        sets.append(tuple(np.abs(a) if d[0] == "real" else a for a, d in zip(rand, domains)))
    ints = [(i, d) for i, d in enumerate(domains) if d[0] != "real"]
    if ints and len(ints) <= 2:
        for values in itertools.product(*(range(d[0]) for _, d in ints)):
            args = list(rand)
            for (i, d), v in zip(ints, values):
                args[i] = np.full(d[1], v, dtype=np.int64)
            sets.append(tuple(args))
        if all(d[0] == 2 for _, d in ints):  # booleans may be stored as numpy bools
            for values in itertools.product(*((False, True) for _ in ints)):
                args = list(rand)
                for (i, d), v in zip(ints, values):
                    args[i] = np.full(d[1], v, dtype=bool)
                sets.append(tuple(args))
    return sets


def c06a_tags(op, domains, tags):
    name = getattr(op, "name", "")
    t = list(tags)
    if all(d[0] != "real" for d in domains) and tags[0] in ("unary", "binary") and name not in DEDICATED:
        t.append("generic-bint-range")
    if tags[0] == "arrayop" or tags[-1] in ("ArgmaxOp", "ArgminOp"):
        t.append("generic-unary-shape")
    if name == "floordiv" and all(d[0] != "real" for d in domains):
        t.append("floordiv-bint")
    if name == "getslice":
        index = op.defaults.get("index")
        index = index if isinstance(index, tuple) else (index,)
        if any(isinstance(x, slice) and x.step is not None and x.step < 0 for x in index):
            t.append("negative-step")
    if name == "getitem" and domains[1][0] == 2:
        t.append("bool-index")
    return t


def check_c06a(op_src, domains, finitary, tags, seed=0):
    out = Outcome()
    ns = {"ops": ops, "Ellipsis": Ellipsis}
    op = eval(op_src, ns)
    doms = [Array[size, tuple(shape)] for size, shape in domains]
    tags = c06a_tags(op, domains, tags)
    try:
        declared = find_domain(op, tuple(doms)) if finitary else find_domain(op, *doms)
    except Exception:
        out.declined += 1
        return out
    if declared is None:
        out.declined += 1
        return out
    rng = np.random.RandomState(seed + 7)
    n_ok = 0
    for args in _arrays_for(domains, rng):
        if getattr(op, "name", "") in ("floordiv", "mod", "truediv") and np.any(np.asarray(args[1]) == 0):
            continue  # outside the op's domain
        try:
            with np.errstate(all="ignore"):
                actual = op(tuple(args)) if finitary else op(*args)
        except Exception as exc:
            out.skip("op_raised: " + type(exc).__name__)
            continue
        actual = np.asarray(actual)
        n_ok += 1
        if tuple(actual.shape) != tuple(declared.shape):
            out.bad("C06.find_domain", "find_domain(%s, %s) = %s but the op returns shape %s"
                    % (op_src, ", ".join(map(str, doms)), declared, actual.shape), tags + ["shape"])
            break
        if isinstance(declared.dtype, int):
            vals = actual
            bad = None
            if vals.dtype.kind == "f":
                vals = vals[np.isfinite(vals)]  # non-finite = outside the op's domain (atanh(1), ...)
            if vals.dtype.kind == "f" and not np.all(vals == np.floor(vals)):
                bad = "non-integer values %s" % vals.ravel()[:4].tolist()
            elif vals.dtype.kind not in "biuf":
                bad = "dtype %s" % vals.dtype
            elif vals.size and (vals.astype(float).min() < 0 or vals.astype(float).max() >= declared.dtype):
                bad = "values in [%s, %s]" % (vals.min(), vals.max())
            if bad:
                out.bad("C06.find_domain", "find_domain(%s, %s) = %s but on %s the op returns %s"
                        % (op_src, ", ".join(map(str, doms)), declared,
                           [np.asarray(a).ravel()[:3].tolist() for a in args], bad), tags + ["range"])
                break
    if n_ok:
        out.ev("C06.find_domain", "", nontrivial=True)
    else:
        out.declined += 1
    return out


def replay_c06a(op_src, domains, finitary, tags, seed):
    return (
        "import sys, os\nsys.path.insert(0, os.environ.get('VERIF_REPO', '/repo')); sys.path.insert(0, '/verif/rtc')\n"
        "import numpy as np\nfrom funsor import ops\nfrom funsor.domains import Array, find_domain\n"
        "import terms_cases as TK\n"
        "OP = %r; DOMAINS = %r\n" % (op_src, domains)
        + "op = eval(OP); doms = [Array[s, tuple(sh)] for s, sh in DOMAINS]\n"
        + ("print('find_domain:', find_domain(op, tuple(doms)))\n" if finitary else "print('find_domain:', find_domain(op, *doms))\n")
        + "out = TK.check_c06a(OP, DOMAINS, %r, %r, %r)\n" % (finitary, list(tags), seed)
        + "for v in out.violations:\n    print('VIOLATION', v)\nsys.exit(1 if out.violations else 0)\n"
    )


# ----------------------------------------------------------------------------------------------
# C04: substitution


def _contraction(red, bin_, name, size, a, b):
    inputs = G.merge(a.inputs, b.inputs)
    inputs = OrderedDict((k, d) for k, d in inputs.items() if k != name)
    src = "Contraction(ops.%s, ops.%s, frozenset([Variable(%r, Bint[%d])]), {0}, {1})" % (red, bin_, name, size)
    return G.E("contraction", red + "_" + bin_, (a, b), src, inputs, a.out, core=False, nbind=1)


def c04_functions(sizes):
    """the funsors f substituted into: (label, E)"""
    si, sj, sk = sizes["i"], sizes["j"], sizes["k"]

    def T(names, event=(), k=0, dtype="real"):
        return G.tensor(names, event, k, sizes, dtype)

    x = G.variable("x", G.real())
    B, U, R = G.FBinary(), G.FUnary(), G.FReduce(None)
    t_ij, t_ijk, t_jk, t_j = T(("i", "j"), (), 3), T(("i", "j", "k"), (), 6), T(("j", "k"), (), 5), T(("j",), (), 2)
    fs = [
        ("Tensor2", t_ij),
        ("Tensor3", t_ijk),
        ("TensorEvent", T(("i",), (2,), 8)),
        ("TensorInt", T(("i", "k"), (), 18, sj)),
        ("Binary", B.make((t_ij, x), "add")),
        ("Unary", U.make((B.make((t_jk, x), "mul"),), "exp")),
        ("Reduce", R.make((t_ijk,), ("add", ("k",), False))),
        ("ReduceLazy", R.make((B.make((t_ijk, x), "mul"),), ("add", ("k",), False))),
        ("Stack", G.FStack().make((t_j, t_jk), "s")),
        ("StackLazy", G.FStack().make((B.make((t_j, x), "mul"), t_jk), "s")),
        ("Cat", G.FCat().make((t_ij, T(("j", "i"), (), 4)), ("j", "j"))),
        ("CatNew", G.FCat().make((t_ij, T(("j", "i"), (), 4)), ("c", "j"))),
        ("CatLazy", G.FCat().make((B.make((t_ij, x), "mul"), T(("j", "i"), (), 4)), ("j", "j"))),
        ("Slice", G.slice_("i", 0, sj, 1, sj)),
        ("SliceStrided", G.slice_("i", 1, max(sj, 2), 2, max(sj, 2))),
        ("Lambda", G.FLambda(None).make((t_jk,), ("k", sk, True))),
        ("LambdaLazy", G.FLambda(None).make((B.make((t_jk, x), "mul"),), ("k", sk, True))),
        ("Contraction", _contraction("add", "mul", "k", sk, T(("i", "k"), (), 7), B.make((t_jk, x), "mul"))),
    ]
    return [(n, e) for n, e in fs if e is not None]


def c04_values(f, key, ident):
    """candidate values for input ``key`` of f: list of (kind, value) with value an E / int / float / str"""
    dom = f.inputs[key]
    others = [m for m, d in f.inputs.items() if m != key and not G.is_real(d) and not d.shape]
    vals = []
    base = 30 + 7 * ident
    if G.is_real(dom):
        sz = dict((m, f.inputs[m].size) for m in others)
        vals.append(("real_num", 0.75))
        vals.append(("real_ten0", G.tensor((), dom.shape, base % 25, {}, "real")))
        if others:
            vals.append(("real_ten_coll", G.tensor((others[0],), dom.shape, (base + 1) % 25, sz, "real")))
        vals.append(("real_var", "w"))
        if not dom.shape:
            vals.append(("real_expr", G.FBinary().make((G.variable("w", dom), G.number(2.0)), "mul")))
            if others:
                vals.append(("real_expr_self", G.FBinary().make(
                    (G.variable(key, dom), G.tensor((others[0],), (), (base + 2) % 25, sz, "real")), "add")))
        return vals
    if dom.shape:
        return vals
    n = dom.size
    sz = dict((m, f.inputs[m].size) for m in others)
    sz.update({key: n, "p": 2, "q": 3})
    vals.append(("num0", 0))
    vals.append(("numL", G.number(n - 1, n)))
    vals.append(("ten0", G.tensor((), (), base % 25, sz, n)))
    vals.append(("ten1_fresh", G.tensor(("p",), (), (base + 1) % 25, sz, n)))
    vals.append(("ten1_self", G.tensor((key,), (), (base + 2) % 25, sz, n)))
    vals.append(("ten2_fresh", G.tensor(("p", "q"), (), (base + 3) % 25, sz, n)))
    vals.append(("var_fresh", "p"))
    vals.append(("var_self", key))
    vals.append(("slice_fresh", G.slice_("p", 0, n, 2, n)))
    if n > 1:
        vals.append(("slice_self", G.slice_(key, 1, n, 1, n)))
    vals.append(("expr", G.FBinary().make((G.variable("p", G.bint(n)), G.variable("q", G.bint(n))), "min")))
    for m in others[:2]:
        vals.append(("ten1_other:" + m, G.tensor((m,), (), (base + 4) % 25, sz, n)))
        vals.append(("ten2_coll:" + m, G.tensor((m, key), (), (base + 5) % 25, sz, n)))
        if f.inputs[m].size == n:
            vals.append(("var_other:" + m, G.variable(m, G.bint(n))))
            vals.append(("expr_self:" + m, G.FBinary().make((G.variable(key, G.bint(n)), G.variable(m, G.bint(n))), "min")))
        vals.append(("slice_other:" + m, G.slice_(m, 0, n, 1, n)))
    return [(k, v) for k, v in vals if v is not None]


def _val_src(v):
    return v.src if isinstance(v, G.E) else repr(v)


def _val_inputs(v, dom):
    if isinstance(v, G.E):
        return v.inputs
    if isinstance(v, str):
        return OrderedDict([(v, dom)])
    return OrderedDict()


def subs_expected_inputs(f, vals):
    """textbook inputs of f(**vals): unsubstituted inputs of f in order, then the values' inputs in
    the order of f's inputs; None if two contributions disagree on a domain (ill-typed)"""
    keys = [k for k in f.inputs if k in vals]
    inputs = OrderedDict((k, d) for k, d in f.inputs.items() if k not in keys)
    for k in keys:
        for n, d in _val_inputs(vals[k], f.inputs[k]).items():
            if inputs.setdefault(n, d) != d:
                return None
    return inputs


def _subs_src(fsrc, vals):
    return "%s(%s)" % (fsrc, ", ".join("%s=%s" % (k, _val_src(v)) for k, v in vals.items()))


def c04_cases(tier, seed=0):
    """yield case dicts: kind in {"map", "chain"}"""
    quick = tier == "quick"
    universes = G.UNIVERSES_QUICK if quick else G.UNIVERSES_THOROUGH
    triple_cap = 150 if quick else 1500
    chain_cap = 150 if quick else 1200
    for sizes in universes:
        for label, f in c04_functions(sizes):
            keys = list(f.inputs)
            values = {k: c04_values(f, k, i) for i, k in enumerate(keys)}
            keys = [k for k in keys if values[k]]
            singles = []
            for r in (1, 2, 3):
                for ks in itertools.combinations(keys, r):
                    combos = itertools.product(*(values[k] for k in ks))
                    if r == 3:
                        combos = list(combos)
                        if len(combos) > triple_cap:
                            rng = G._rng(seed, ("c04", label, ks, tuple(sorted(sizes.items()))))
                            idx = sorted(rng.choice(len(combos), triple_cap, replace=False))
                            combos = [combos[i] for i in idx]
                    for combo in combos:
                        vals = OrderedDict((k, v) for k, (_, v) in zip(ks, combo))
                        kinds = [kind for kind, _ in combo]
                        inputs = subs_expected_inputs(f, vals)
                        if inputs is None:
                            continue
                        case = dict(
                            kind="map", label=label, src=_subs_src(f.src, vals), fsrc=f.src,
                            expected=[(k, (d.size, tuple(d.shape))) for k, d in inputs.items()],
                            tags=["f:" + label] + ["v:" + k.split(":")[0] for k in kinds] + list(G.subs_tags(f, vals)),
                            nkeys=r, universe=(sizes["i"], sizes["j"], sizes["k"]),
                        )
                        if r == 1:
                            case["foreign_src"] = _subs_src(f.src, OrderedDict(list(vals.items()) + [("zz", 0)]))
                            singles.append((ks[0], combo[0][0], combo[0][1], inputs))
                        yield case
            # chained f(a)(b) against the fused substitution
            chains = []
            for k1, kind1, v1, inputs1 in singles:
                for k2, d2 in inputs1.items():
                    # values for k2: reuse f's candidates when k2 is an input of f, else simple ones
                    if k2 in values and k2 != k1:
                        cands = [(kd, v) for kd, v in values[k2] if kd in ("num0", "ten1_fresh", "var_fresh", "ten1_self", "real_num", "real_ten0")]
                    elif not G.is_real(d2) and not d2.shape:
                        cands = [("num0", 0), ("var_fresh", "r"),
                                 ("ten1_self", G.tensor((k2,), (), 11, {k2: d2.size}, d2.size))]
                    else:
                        continue
                    for kind2, v2 in cands:
                        chains.append((k1, kind1, v1, k2, kind2, v2))
            if len(chains) > chain_cap:
                rng = G._rng(seed, ("c04chain", label, tuple(sorted(sizes.items()))))
                idx = sorted(rng.choice(len(chains), chain_cap, replace=False))
                chains = [chains[i] for i in idx]
            for k1, kind1, v1, k2, kind2, v2 in chains:
                chained = "%s(%s=%s)(%s=%s)" % (f.src, k1, _val_src(v1), k2, _val_src(v2))
                # fused: f(k1 = v1(k2=v2), k2 = v2 if k2 is an unsubstituted input of f)
                if isinstance(v1, G.E):
                    fv1 = "%s(%s=%s)" % (v1.src, k2, _val_src(v2)) if k2 in v1.inputs else v1.src
                elif isinstance(v1, str):
                    if v1 == k2:
                        fv1 = _val_src(v2) if not isinstance(v2, (int, float)) else "Number(%r, %s)" % (
                            v2, f.inputs[k1].size if not G.is_real(f.inputs[k1]) else "'real'")
                        if isinstance(v2, str):
                            fv1 = repr(v2)
                    else:
                        fv1 = repr(v1)
                else:
                    fv1 = repr(v1)
                parts = ["%s=%s" % (k1, fv1)]
                if k2 in f.inputs and k2 != k1:
                    parts.append("%s=%s" % (k2, _val_src(v2)))
                fused = "%s(%s)" % (f.src, ", ".join(parts))
                inputs1 = subs_expected_inputs(f, {k1: v1})
                step2 = G.E("tensor", None, (), "f_after_a", inputs1, f.out)
                if subs_expected_inputs(step2, {k2: v2}) is None:
                    continue  # the second substitution would be ill-typed (a name with two domains)
                yield dict(kind="chain", label=label, src=chained, fused=fused,
                           tags=["f:" + label, "chain", "v:" + kind1.split(":")[0], "v:" + kind2.split(":")[0]]
                           + sorted(set(G.subs_tags(f, {k1: v1})) | set(G.subs_tags(step2, {k2: v2}))),
                           universe=(sizes["i"], sizes["j"], sizes["k"]))


def _decl(t):
    return OrderedDict((k, G.dom_of_funsor_domain(d)) for k, d in t.inputs.items())


def check_c04(ns, case, seed=0):
    out = Outcome()
    tags = tuple(case["tags"])
    src = case["src"]
    # the lazily built substitution: reference term and exact-inputs clause
    try:
        lazy_t = build(ns, case.get("fused", src), reflect)
    except Exception as exc:
        ensure_default_stack()
        out.skip("reflect_build_raised: " + short_exc(exc)[:60])
        return out
    if case["kind"] == "map":
        expected = OrderedDict((k, G.Dom(s, tuple(sh))) for k, (s, sh) in case["expected"])
        out.ev("C04.lazy_inputs", "")
        if dict(_decl(lazy_t)) != dict(expected):
            out.bad("C04.lazy_inputs", "lazily built Subs declares inputs %s, expected exactly %s"
                    % (dict(_decl(lazy_t)), dict(expected)), tags)
    oracle = Oracle(lazy_t, seed)
    if not oracle.ok:
        if oracle.error.startswith("undeclared"):
            out.bad("C04.lazy_inputs", "lazily built Subs has a free variable missing from .inputs: " + oracle.error, tags)
        else:
            out.skip(oracle.error[:70])
        return out
    nontrivial = len(oracle.envs) > 1

    def run(contract, source, interp, what):
        try:
            r = build(ns, source, interp)
        except Exception as exc:
            ensure_default_stack()
            out.declined += 1
            return None
        ensure_default_stack()
        if not isinstance(r, Funsor):
            out.skip("non_funsor_result")
            return None
        off = inputs_subset(r, lazy_t)
        if off:
            out.bad(contract, "%s: inputs %s not among the expected %s" % (what, dict(r.inputs), dict(lazy_t.inputs)), tags)
            out.ev(contract, what, nontrivial)
            return r
        if not same_domain(r.output, lazy_t.output):
            out.bad(contract, "%s: output %s != %s" % (what, r.output, lazy_t.output), tags)
        n = compare_pointwise(out, contract, r, oracle, tags, what)
        if n:
            out.ev(contract, what, nontrivial)
        return r

    if case["kind"] == "map":
        r = run("C04.substitution", src, None, "eager f(**subs)")
        run("C04.substitution", src, lazy, "lazy f(**subs)")
        if case.get("foreign_src"):
            r2 = run("C04.foreign_names_ignored", case["foreign_src"], None, "f(**subs, zz=0)")
            if r2 is not None and "zz" in r2.inputs:
                out.bad("C04.foreign_names_ignored", "foreign name leaked into inputs", tags)
    else:
        run("C04.chained_equals_fused", src, None, "eager f(a)(b)")
        run("C04.chained_equals_fused", src, lazy, "lazy f(a)(b)")
        # the two lazily built terms must denote the same function (sanity of the law itself)
        try:
            chained_lazy = build(ns, src, reflect)
            n = compare_pointwise(out, "C04.chained_equals_fused", chained_lazy, oracle, tags, "reflect f(a)(b)")
            if n:
                out.ev("C04.chained_equals_fused", "reflect", nontrivial)
        except Exception:
            ensure_default_stack()
            out.declined += 1
    return out


def replay_c04(case, fill, seed):
    return (
        G.PREAMBLE
        + "\nsys.path.insert(0, '/verif/rtc')\nimport terms_cases as TK, terms_gen as TG\n"
        + "FILL, SEED = %r, %r\nns = TG.namespace(FILL, SEED)\nCASE = %r\n" % (fill, seed, case)
        + "try:\n    print('eager  :', repr(eval(CASE['src']))[:500])\nexcept Exception as e:\n    print('eager raised:', type(e).__name__, e)\n"
        + "with reflect:\n    print('reflect:', repr(eval(CASE.get('fused', CASE['src'])))[:500])\n"
        + "out = TK.check_c04(ns, CASE, SEED)\n"
        + "for v in out.violations:\n    print('VIOLATION', v)\nsys.exit(1 if out.violations else 0)\n"
    )


# ----------------------------------------------------------------------------------------------
# C05: binders.  A mini-AST with explicit lexical scoping; every Bint name has size 2.
#
#   ("T", names, k) real tensor      ("B", names, k) Bint[2]-valued tensor      ("V", name) variable
#   ("bin", op, a, b)
#   ("red", op, n, body)             Reduce: n bound in body
#   ("lamsum", n, body)              Lambda(n, body).sum(): n bound in body
#   ("lamget", n, body, m)           Lambda(n, body)[Variable(m)]: n bound in body, m free
#   ("subs", body, n, val)           body(n=val): n bound in body, NOT in val
#   ("selfsubs", body, n)            body(n=body) with the SAME object on both sides
#   ("catred", nm, pn, a, b)         Cat(nm, (a, b), pn).reduce(add, nm): pn bound in a and b, nm bound by the reduce
#   ("con", n, a, b)                 Contraction(add, mul, {n}, a, b): n bound in a and b
#   ("indep", n, body)               Independent(body * Variable(x, Real), 'z', n, x): n and x bound, z: Reals[2] free

C05_SIZE = 2


def c05_fv(t):
    """free Bint names (ordered) of a mini-AST node, by the textbook scoping rules; real input 'z' tracked too"""
    k = t[0]
    if k in ("T", "B"):
        return list(t[1])
    if k == "V":
        return [t[1]]
    if k == "bin":
        return _u(c05_fv(t[2]), c05_fv(t[3]))
    if k == "red":
        return [n for n in c05_fv(t[3]) if n != t[2]]
    if k == "lamsum":
        return [n for n in c05_fv(t[2]) if n != t[1]]
    if k == "lamget":
        return _u([n for n in c05_fv(t[2]) if n != t[1]], [t[3]])
    if k == "subs":
        return _u([n for n in c05_fv(t[1]) if n != t[2]], c05_fv(t[3]))
    if k == "selfsubs":
        return _u([n for n in c05_fv(t[1]) if n != t[2]], c05_fv(t[1]))
    if k == "catred":
        return [n for n in _u(c05_fv(t[3]), c05_fv(t[4])) if n != t[2]]
    if k == "con":
        return [n for n in _u(c05_fv(t[2]), c05_fv(t[3])) if n != t[1]]
    if k == "indep":
        return _u([n for n in c05_fv(t[2]) if n != t[1]], ["z"])
    if k == "approx":  # Approximate is exact under every exact interpretation: n stays a free input
        return c05_fv(t[2])
    raise ValueError(k)


def _u(*lists):
    out = []
    for lst in lists:
        for x in lst:
            if x not in out:
                out.append(x)
    return out


def c05_kind(t):
    """'r' real scalar or 'b' Bint[2] scalar"""
    k = t[0]
    if k == "T":
        return "r"
    if k in ("B", "V"):
        return "b"
    if k == "bin":
        return "b" if t[1] == "min" else "r"
    if k == "red":
        return c05_kind(t[3])
    if k in ("subs", "selfsubs"):
        return c05_kind(t[1])
    if k == "lamget":
        return c05_kind(t[2])
    return "r"


def c05_depth(t):
    k = t[0]
    if k in ("T", "B", "V"):
        return 0
    if k == "bin":
        return max(c05_depth(t[2]), c05_depth(t[3]))
    kids = [x for x in t[1:] if isinstance(x, tuple) and x and isinstance(x[0], str) and x[0] in _KINDS]
    return 1 + max(c05_depth(x) for x in kids)


_KINDS = {"T", "B", "V", "bin", "red", "lamsum", "lamget", "subs", "selfsubs", "catred", "con", "indep", "approx"}


def c05_src(t, real_names=("x", "z")):
    k = t[0]
    if k == "T":
        return "Tensor(fill(%r, %d), OrderedDict([%s]))" % (
            (C05_SIZE,) * len(t[1]), t[2], ", ".join("(%r, Bint[2])" % n for n in t[1]))
    if k == "B":
        return "Tensor(ifill(%r, 2, %d), OrderedDict([%s]), 2)" % (
            (C05_SIZE,) * len(t[1]), t[2], ", ".join("(%r, Bint[2])" % n for n in t[1]))
    if k == "V":
        return "Variable(%r, Bint[2])" % t[1]
    if k == "bin":
        return "Binary(ops.%s, %s, %s)" % (t[1], c05_src(t[2]), c05_src(t[3]))
    if k == "red":
        return "%s.reduce(ops.%s, %r)" % (c05_src(t[3]), t[1], t[2])
    if k == "lamsum":
        return "Unary(ops.SumOp(None, False), Lambda(Variable(%r, Bint[2]), %s))" % (t[1], c05_src(t[2]))
    if k == "lamget":
        return "Lambda(Variable(%r, Bint[2]), %s)[Variable(%r, Bint[2])]" % (t[1], c05_src(t[2]), t[3])
    if k == "subs":
        return "%s(%s=%s)" % (c05_src(t[1]), t[2], c05_src(t[3]))
    if k == "selfsubs":
        return "(lambda _t: _t(%s=_t))(%s)" % (t[2], c05_src(t[1]))
    if k == "catred":
        return "Cat(%r, (%s, %s), %r).reduce(ops.add, %r)" % (t[1], c05_src(t[3]), c05_src(t[4]), t[2], t[1])
    if k == "con":
        return "Contraction(ops.add, ops.mul, frozenset([Variable(%r, Bint[2])]), %s, %s)" % (
            t[1], c05_src(t[2]), c05_src(t[3]))
    if k == "approx":
        return "%s.approximate(ops.logaddexp, %s, %r)" % (c05_src(t[2]), c05_src(t[3]), t[1])
    if k == "indep":
        xn = t[3] if len(t) > 3 else "x"
        return "Independent(Binary(ops.mul, %s, Variable(%r, Real)), 'z', %r, %r)" % (c05_src(t[2]), xn, t[1], xn)
    raise ValueError(k)


def c05_rename_apart(t):
    """the same expression with every binder given a unique name (u1, u2, ...); free names unchanged"""
    counter = itertools.count(1)

    def fresh():
        return "u%d" % next(counter)

    def go(t, env):
        k = t[0]
        if k in ("T", "B"):
            return (k, tuple(env.get(n, n) for n in t[1]), t[2])
        if k == "V":
            return ("V", env.get(t[1], t[1]))
        if k == "bin":
            return ("bin", t[1], go(t[2], env), go(t[3], env))
        if k == "red":
            u = fresh()
            return ("red", t[1], u, go(t[3], dict(env, **{t[2]: u})))
        if k == "lamsum":
            u = fresh()
            return ("lamsum", u, go(t[2], dict(env, **{t[1]: u})))
        if k == "lamget":
            u = fresh()
            return ("lamget", u, go(t[2], dict(env, **{t[1]: u})), env.get(t[3], t[3]))
        if k == "subs":
            u = fresh()
            return ("subs", go(t[1], dict(env, **{t[2]: u})), u, go(t[3], env))
        if k == "selfsubs":
            u = fresh()
            return ("subs", go(t[1], dict(env, **{t[2]: u})), u, go(t[1], env))
        if k == "catred":
            unm, upn = fresh(), fresh()
            e2 = dict(env, **{t[2]: upn})
            return ("catred", unm, upn, go(t[3], e2), go(t[4], e2))
        if k == "con":
            u = fresh()
            e2 = dict(env, **{t[1]: u})
            return ("con", u, go(t[2], e2), go(t[3], e2))
        if k == "indep":
            u = fresh()
            return ("indep", u, go(t[2], dict(env, **{t[1]: u})), "x" + fresh())
        if k == "approx":  # textbook meaning of Approximate(op, model, guide, vars) is the model
            return go(t[2], env)
        raise ValueError(k)

    return go(t, {})


def c05_valid(t):
    """static side conditions of the constructors (what funsor asserts), by the textbook scoping"""
    k = t[0]
    if k in ("T", "B"):
        return len(set(t[1])) == len(t[1])
    if k == "V":
        return True
    if k == "bin":
        return c05_valid(t[2]) and c05_valid(t[3])
    if k == "catred":
        nm, pn, a, b = t[1:]
        if not (c05_valid(a) and c05_valid(b)):
            return False
        if pn not in c05_fv(a) or pn not in c05_fv(b):
            return False
        if nm != pn and (nm in c05_fv(a) or nm in c05_fv(b)):
            return False
        return "z" not in c05_fv(a) + c05_fv(b) or True
    kids = [x for x in t[1:] if isinstance(x, tuple) and x and isinstance(x[0], str) and x[0] in _KINDS]
    return all(c05_valid(x) for x in kids)


def c05_cases(tier, seed=0):
    quick = tier == "quick"
    names = ["i", "j"] if quick else ["i", "j", "k"]
    max_depth = 3 if quick else 4
    caps = {2: 1500, 3: 1500} if quick else {2: 5000, 3: 6000, 4: 6000}
    leafs_r = [("T", ("i",), 1), ("T", ("j",), 2), ("T", ("i", "j"), 3), ("T", ("j", "i"), 4)]
    leafs_b = [("B", ("i",), 5), ("B", ("i", "j"), 6), ("B", ("j",), 7), ("V", "i"), ("V", "j")]
    if not quick:
        leafs_r += [("T", ("k", "i"), 8), ("T", ("j", "k"), 9)]
        leafs_b += [("V", "k"), ("B", ("k", "j"), 10)]
    red_ops = ["add", "max"] if quick else ["add", "max", "logaddexp", "mul"]

    def binders(bodies_r, bodies_b, vals, pair_pool):
        """every binder construction over the given bodies"""
        for body in bodies_r:
            fv = [n for n in c05_fv(body) if n != "z"]
            for n in fv:
                for op in red_ops:
                    yield ("red", op, n, body)
                yield ("lamsum", n, body)
                for m in names:
                    yield ("lamget", n, body, m)
                for v in vals:
                    yield ("subs", body, n, v)
                if "z" not in c05_fv(body):
                    yield ("indep", n, body)
                yield ("approx", n, body, ("T", (n,), 11))
        for body in bodies_b:
            for n in c05_fv(body):
                yield ("red", "max", n, body)
                for v in vals:
                    yield ("subs", body, n, v)
                yield ("selfsubs", body, n)
        for a, b in pair_pool:
            fa, fb = c05_fv(a), c05_fv(b)
            for n in _u(fa, fb):
                if n != "z":
                    yield ("con", n, a, b)
            for pn in fa:
                if pn in fb and pn != "z":
                    for nm in names:
                        yield ("catred", nm, pn, a, b)

    def emit(t):
        if not c05_valid(t):
            return None
        apart = c05_rename_apart(t)
        free = c05_fv(t)
        return dict(src=c05_src(t), ref=c05_src(apart), free=free, depth=c05_depth(t),
                    tags=sorted(set(_c05_tags(t))))

    seen = set()
    # level 1: complete
    bodies1 = leafs_r + [("bin", op, a, b) for op in ("add", "mul") for a in leafs_r for b in leafs_r]
    ints1 = leafs_b + [("bin", "min", a, b) for a in leafs_b for b in leafs_b if a != b][:12]
    vals0 = leafs_b
    pairs0 = [(a, b) for a in leafs_r for b in leafs_r]
    level = {1: []}
    for t in binders(bodies1, ints1, vals0, pairs0):
        c = emit(t)
        if c and c["src"] not in seen:
            seen.add(c["src"])
            level[1].append(t)
            yield c
    # deeper levels: seeded sampling
    rng = np.random.RandomState(seed + 505)
    pools = {0: leafs_r + leafs_b}
    for d in range(2, max_depth + 1):
        prev = level[d - 1]
        prev_r = [t for t in prev if c05_kind(t) == "r"]
        prev_b = [t for t in prev if c05_kind(t) == "b"]
        lower_r = leafs_r + [t for dd in range(1, d - 1) for t in level[dd] if c05_kind(t) == "r"]
        level[d] = []
        tries = 0
        while len(level[d]) < caps[d] and tries < caps[d] * 30:
            tries += 1
            a = prev_r[rng.randint(len(prev_r))]
            style = rng.randint(4)
            if style == 0:
                bodies_r = [a]
            elif style == 1:  # sibling: binder next to a free use / another binder of the same depth
                b = prev_r[rng.randint(len(prev_r))]
                bodies_r = [("bin", ["add", "mul"][rng.randint(2)], a, b)]
            else:
                pool = lower_r if lower_r else leafs_r
                b = pool[rng.randint(len(pool))]
                bodies_r = [("bin", ["add", "mul"][rng.randint(2)], a, b) if style == 2 else ("bin", "add", b, a)]
            bodies_b = [prev_b[rng.randint(len(prev_b))]] if prev_b and rng.randint(3) == 0 else []
            vals = list(leafs_b)
            if prev_b:
                vals.append(prev_b[rng.randint(len(prev_b))])
            other = prev_r[rng.randint(len(prev_r))]
            pair_pool = [(a, other), (leafs_r[rng.randint(len(leafs_r))], a)]
            cands = list(binders(bodies_r, bodies_b, vals, pair_pool))
            if not cands:
                continue
            t = cands[rng.randint(len(cands))]
            if c05_depth(t) != d:
                continue
            c = emit(t)
            if c and c["src"] not in seen:
                seen.add(c["src"])
                level[d].append(t)
                yield c


def _c05_tags(t):
    """features: constructor kinds, and which adversarial coincidences of names occur"""
    tags = []

    def binders_of(t):
        k = t[0]
        if k in ("red",):
            return [t[2]]
        if k in ("lamsum", "lamget", "con", "indep", "approx"):
            return [t[1]]
        if k in ("subs", "selfsubs"):
            return [t[2]]
        if k == "catred":
            return [t[1], t[2]]
        return []

    def go(t, enclosing):
        k = t[0]
        if k in ("T", "B", "V"):
            return
        tags.append("b:" + k)
        mine = binders_of(t)
        for n in mine:
            if n in enclosing:
                tags.append("same-name-nested")
        if k == "selfsubs":
            tags.append("self-substitution")
        if k == "approx":
            tags.append("approximate-binder")
        if k == "red" and t[3][0] == "bin" and (t[1], t[3][1]) not in G.DISTRIBUTIVE and not (
                t[1] == t[3][1] and t[1] in ("max", "min")):
            if t[1] != t[3][1] or t[2] not in c05_fv(t[3][2]) or t[2] not in c05_fv(t[3][3]):
                tags.append("reduce-over-nondistributive-binary")
        if k == "bin":
            fa, fb = set(_bound_names(t[2])), set(_bound_names(t[3]))
            if fa & fb:
                tags.append("same-name-siblings")
            if (fa & set(c05_fv(t[3]))) or (fb & set(c05_fv(t[2]))):
                tags.append("free-var-named-like-binder")
        if k == "subs" and t[2] in c05_fv(t[3]):
            tags.append("subs-value-mentions-key")
        if k == "subs" and t[3][0] == "V" and t[3][1] != t[2] and t[3][1] in c05_fv(t[1]):
            tags.append("rename-onto-existing-input")
        if k == "lamget" and t[3] != t[1] and t[3] in c05_fv(t[2]):
            tags.append("rename-onto-existing-input")
        for x in t[1:]:
            if isinstance(x, tuple) and x and isinstance(x[0], str) and x[0] in _KINDS:
                go(x, enclosing | set(mine))

    def _bound_names(t):
        out = []
        k = t[0]
        if k in ("T", "B", "V"):
            return out
        out += binders_of(t)
        for x in t[1:]:
            if isinstance(x, tuple) and x and isinstance(x[0], str) and x[0] in _KINDS:
                out += _bound_names(x)
        return out

    go(t, set())
    return tags


def _subterms(t):
    seen = set()
    stack = [t]
    while stack:
        x = stack.pop()
        if isinstance(x, Funsor):
            if id(x) in seen:
                continue
            seen.add(id(x))
            yield x
            stack.extend(x._ast_values)
        elif isinstance(x, (tuple, frozenset)):
            stack.extend(x)


C05_INTERPS = (("eager", None), ("lazy", lazy), ("reflect", reflect), ("normalize", normalize))


def check_c05(ns, case, seed=0):
    out = Outcome()
    tags = tuple(case["tags"])
    expected = set(case["free"])
    try:
        ref = build(ns, case["ref"], reflect)
    except Exception as exc:
        ensure_default_stack()
        out.skip("reference_build_raised: " + short_exc(exc)[:60])
        return out
    if set(ref.inputs) != expected:
        out.bad("C05.reference_inputs", "renamed-apart reference declares inputs %s, textbook free names %s"
                % (list(ref.inputs), sorted(expected)), tags)
        return out
    oracle = Oracle(ref, seed)
    if not oracle.ok:
        out.skip(oracle.error[:70])
        return out
    for iname, interp in C05_INTERPS:
        try:
            t = build(ns, case["src"], interp)
        except Exception as exc:
            ensure_default_stack()
            out.declined += 1
            out.skip("declined[%s]: %s" % (iname, type(exc).__name__))
            continue
        ensure_default_stack()
        if not isinstance(t, Funsor):
            continue
        itags = tags + ("interp-" + iname,)
        out.ev("C05.bound_disjoint_inputs", iname)
        for u in _subterms(t):
            clash = set(u.bound) & set(u.inputs)
            if clash:
                out.bad("C05.bound_disjoint_inputs", "%s: a %s node has names %s both bound and in .inputs"
                        % (iname, type(u).__name__, sorted(clash)), itags)
                break
        leaked = [k for k in t.inputs if "__BOUND" in k]
        names = set(t.inputs)
        if leaked or not names <= expected or (iname == "reflect" and names != expected):
            out.bad("C05.bound_disjoint_inputs", "%s: inputs %s, textbook free names %s"
                    % (iname, list(t.inputs), sorted(expected)), itags)
            continue
        n = compare_pointwise(out, "C05.renaming_invariant", t, oracle, itags, "%s-built term" % iname)
        if n:
            out.ev("C05.renaming_invariant", iname, nontrivial=True)
    return out


def replay_c05(case, fill, seed):
    return (
        G.PREAMBLE
        + "\nsys.path.insert(0, '/verif/rtc')\nimport terms_cases as TK, terms_gen as TG\n"
        + "FILL, SEED = %r, %r\nns = TG.namespace(FILL, SEED)\nCASE = %r\n" % (fill, seed, case)
        + "# CASE['src'] uses the adversarial names, CASE['ref'] is the same expression with binders renamed apart\n"
        + "try:\n    print('eager  :', repr(eval(CASE['src']))[:500])\nexcept Exception as e:\n    print('eager raised:', type(e).__name__, e)\n"
        + "out = TK.check_c05(ns, CASE, SEED)\n"
        + "for v in out.violations:\n    print('VIOLATION', v)\nsys.exit(1 if out.violations else 0)\n"
    )
