import sys, traceback, json
sys.path.insert(0,"/verif/rtc")
import numpy as np
import gauss_core as C, gauss_gen as G
sigs=list(G.signatures([(), (2,), (2,2)], [1,2,3], 3, 2, 6))
rs=np.random.RandomState(int(sys.argv[1]))
seen=set()
for k in range(int(sys.argv[2])):
    sig=sigs[rs.randint(len(sigs))]
    dim=G.sig_dim(sig)
    leaf=G.gen_leaf(rs, sig, G.rand_rank(rs, dim))
    ops_,labels=G.gen_chain_ops(rs, C.orc_leaf, C.orc_step, leaf, 3)
    th=[2,2,1,"inf"][rs.randint(4)]
    spec={"kind":"chain","leaf":leaf,"ops":ops_,"pseed":k,"check_leaf":False,"threshold":th}
    for r in C.run_case(spec):
        if r["status"]=="fail" and not any(t in r["tags"] for t in ("val:num_real","val:py_float","cat:rename")):
            key=(r["contract"], tuple(t for t in r["tags"] if t.startswith(("raises","value","lhs","inputs"))))
            if key in seen: continue
            seen.add(key)
            print("=====", labels, th, sig, r["tags"], r["detail"][:300])
            json.dump(spec, open("/verif/rtc/_dbg_spec_%d.json"%len(seen),"w"))
