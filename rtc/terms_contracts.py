"""Contracts C01-C06 of the bounded tier: precondition / postcondition evaluation on ONE case.

Every ``check_*`` function builds its input with the real funsor code (``eval`` of a recipe source in the
namespace of ``terms_gen.PREAMBLE``), evaluates the postcondition against the oracle ``terms_den.den``
and returns an ``Outcome``.  The stand-alone replay scripts call the same functions, so a replay
evaluates exactly the postcondition that failed.
"""
import itertools
import traceback
from collections import OrderedDict

import numpy as np

import funsor
from funsor.interpretations import eager, lazy, memoize, normalize, reflect, sequential
from funsor.interpreter import recursion_reinterpret, stack_reinterpret
from funsor.tensor import Tensor
from funsor.terms import Funsor, Number

import terms_den as D
from terms_gen import PREAMBLE, dom_of_funsor_domain

N_REAL_SAMPLES = 3


class Outcome:
    def __init__(self):
        self.evaluations = []  # (contract, key_suffix, nontrivial)
        self.declined = 0
        self.skipped = {}  # reason -> count   (outside den's fragment, undefined points ...)
        self.violations = []  # (contract, detail, extra_tags)
        self.notes = []

    def ev(self, contract, key="", nontrivial=True):
        self.evaluations.append((contract, key, nontrivial))

    def skip(self, reason, n=1):
        self.skipped[reason] = self.skipped.get(reason, 0) + n

    def bad(self, contract, detail, tags=()):
        self.violations.append((contract, detail, tuple(tags)))


def ensure_default_stack():
    """The default interpretation must be on top (a crashed ``with`` block cannot leave garbage:
    funsor's __exit__ always pops, this is a cheap sanity check)."""
    top = funsor.interpreter.get_interpretation()
    assert top is eager, "interpretation stack not at default: %r" % (top,)


def build(ns, src, interp=None):
    if interp is None:
        return eval(src, ns)
    with interp:
        return eval(src, ns)


def short_exc(exc):
    return "%s: %s" % (type(exc).__name__, str(exc).split("\n")[0][:160])


def same_domain(a, b):
    if not hasattr(a, "dtype") or not hasattr(b, "dtype"):
        return a == b or a is b  # product domains of Tuple terms
    return a.dtype == b.dtype and tuple(a.shape) == tuple(b.shape)


def inputs_subset(result, reference):
    """names and domains of result.inputs are among reference.inputs; returns list of offending names"""
    off = []
    for k, d in result.inputs.items():
        if k not in reference.inputs or not same_domain(d, reference.inputs[k]):
            off.append(k)
    return off


class Oracle:
    """den of a lazily built term at every point of its (finite integer x sampled real) input space"""

    def __init__(self, term, seed=0, inputs=None):
        self.term = term
        self.inputs = term.inputs if inputs is None else inputs
        self.envs, self.exhaustive = D.env_space(self.inputs, seed, N_REAL_SAMPLES)
        self.values = []
        self.error = None
        self.undefined = 0
        try:
            for env in self.envs:
                try:
                    with np.errstate(all="ignore"):
                        self.values.append(D.den(term, env))
                except D.UndefinedPoint:
                    self.values.append(None)
                    self.undefined += 1
        except D.Unsupported as exc:
            self.error = "unsupported: " + str(exc)
        except KeyError as exc:
            self.error = "undeclared: " + str(exc)
        except Exception as exc:  # numpy refused an operation the lazily built term declares (ill-typed term)
            self.error = "oracle_exception: " + short_exc(exc)

    @property
    def ok(self):
        return self.error is None

    def all_finite(self):
        for v in self.values:
            if v is None:
                return False
            if isinstance(v, tuple):
                return False
            a = np.asarray(v)
            if a.dtype.kind == "f" and not np.all(np.isfinite(a)):
                return False
        return True

    def depends_on_everything(self):
        return True


def observe(t, env):
    """value of a funsor at a point: public data for evaluated terms, den for terms that stayed lazy"""
    if D.is_evaluated(t):
        return D.value(t, env)
    with np.errstate(all="ignore"):
        return D.den(t, env)


def compare_pointwise(out, contract, result, oracle, tags=(), what="result"):
    """result (evaluated or lazy) against the oracle at every point. Returns number of points compared."""
    n = 0
    for env, expected in zip(oracle.envs, oracle.values):
        if expected is None:
            out.skip("undefined_point")
            continue
        try:
            actual = observe(result, env)
        except D.UndefinedPoint:
            out.skip("undefined_point_in_result")
            continue
        except D.Unsupported as exc:
            out.skip("result_outside_den: " + str(exc)[:60])
            return n
        except KeyError as exc:
            out.bad(contract, "%s mentions a free variable missing from its declared inputs: %s" % (what, exc), tags)
            return n
        ok, why = D.agree(actual, expected)
        n += 1
        if not ok:
            env_s = {k: (v.tolist() if isinstance(v, np.ndarray) else v) for k, v in env.items()}
            out.bad(contract, "%s differs from den at %s: %s" % (what, env_s, why), tags)
            return n
    return n


# ----------------------------------------------------------------------------------------------
# C01 eager_value  (+ the C06(b) declared-type contract on the same case, + C03 deferred = immediate)


class Case:
    """One generated expression: lazily built reference (under reflect), oracle values."""

    def __init__(self, ns, src, seed=0, ref_src=None):
        self.ns = ns
        self.src = src
        self.seed = seed
        self.lazy = None  # the expression itself built under reflect (declared types, inputs)
        self.ref = None  # the reference term den is applied to (same as lazy unless ref_src differs)
        self.lazy_error = None
        self.oracle = None
        try:
            self.lazy = build(ns, src, reflect)
        except Exception as exc:  # the generator's typing and funsor's disagree, or a constructor bug
            self.lazy_error = exc
            self.lazy_tb = traceback.format_exc(limit=4)
        ensure_default_stack()
        if ref_src is None or ref_src == src:
            self.ref = self.lazy
        else:
            try:
                self.ref = build(ns, ref_src, reflect)
            except Exception as exc:
                self.lazy_error = self.lazy_error or exc
            ensure_default_stack()

    def get_oracle(self):
        if self.oracle is None:
            self.oracle = Oracle(self.ref, self.seed)
        return self.oracle


def lazy_leaves(t):
    """class names of the innermost nodes of a result that stayed lazy (all their funsor children evaluated)"""
    names = set()
    seen = set()

    def go(x):
        if isinstance(x, Funsor):
            if id(x) in seen or D.is_evaluated(x):
                return D.is_evaluated(x)
            seen.add(id(x))
            kids_eval = [go(v) for v in x._ast_values]
            if all(k is not False for k in kids_eval):
                names.add(getattr(type(x), "__origin__", type(x)).__name__)
            return False
        if isinstance(x, (tuple, frozenset)):
            r = [go(v) for v in x]
            return False if any(k is False for k in r) else None
        return None

    go(t)
    return sorted(names)


def number_blocked(t):
    """True when some lazy Stack / Lambda / Cat node of the result has a Number (not a Tensor) as a part or body: funsor
    has eager rules for these constructors over Tensors only, and C01's completion clause speaks of *tensor* expressions,
    so such a node staying lazy is a permitted decline, not a failed completion."""
    import funsor.terms as T

    seen = set()

    def go(x):
        if isinstance(x, Funsor):
            if id(x) in seen or D.is_evaluated(x):
                return False
            seen.add(id(x))
            if isinstance(x, (T.Stack, T.Lambda, T.Cat)):
                kids = []
                for v in x._ast_values:
                    kids.extend(v if isinstance(v, tuple) else [v])
                if any(isinstance(k, T.Number) for k in kids):
                    return True
            return any(go(v) for v in x._ast_values)
        if isinstance(x, (tuple, frozenset)):
            return any(go(v) for v in x)
        return False

    return go(t)


def check_c01(case, meta, out=None):
    """meta: dict(core_ground=bool, tags=[...])"""
    out = out or Outcome()
    tags = tuple(meta.get("tags", ()))
    if case.lazy is None:
        out.skip("reflect_build_raised: " + short_exc(case.lazy_error)[:60])
    if case.ref is None:
        return out
    oracle = case.get_oracle()
    if not oracle.ok:
        if oracle.error.startswith("undeclared"):
            out.bad("C01.lazy_inputs", "lazily built term has a free variable missing from .inputs: " + oracle.error, tags)
        else:
            out.skip(oracle.error[:80])
            if oracle.error.startswith("oracle_exception"):
                out.notes.append("oracle_exception on %s: %s" % (case.src[:300], oracle.error))
        return out
    # the completion clause speaks of *tensor* expressions: a Number placed directly as a Stack / Cat part or Lambda body
    # has no eager rule (funsor's rules for these constructors are over Tensors), so completion is not required there
    complete_required = bool(meta.get("core_ground")) and oracle.all_finite() and "number-part" not in tags
    try:
        result = build(case.ns, case.src)
    except Exception as exc:
        ensure_default_stack()
        out.declined += 1
        if complete_required:
            out.ev("C01.core_completes", "raise")
            out.bad("C01.core_completes", "eager evaluation of a ground core-fragment expression raised " + short_exc(exc),
                    tags + ("raised",))
        return out
    case.eager = result
    if not isinstance(result, Funsor):
        out.skip("non_funsor_result")
        return out
    if not D.is_evaluated(result):
        out.declined += 1
        if complete_required and number_blocked(result):
            out.skip("declined:number_operand_of_stack_lambda_cat")
        elif complete_required:
            out.ev("C01.core_completes", "lazy")
            out.bad("C01.core_completes", "eager evaluation of a ground core-fragment expression stayed lazy: %s"
                    % type(result).__name__, tags + ("stayed-lazy",) + tuple("lazy-leaf:" + n for n in lazy_leaves(result)))
        contract = "C01.eager_value_partial"
    else:
        contract = "C01.eager_value"
        if complete_required:
            out.ev("C01.core_completes", "ok")
    off = inputs_subset(result, case.ref)
    if off:
        out.bad(contract, "inputs of the eager result not among the inputs of the expression: %s (eager %s, expression %s)"
                % (off, dict(result.inputs), dict(case.ref.inputs)), tags)
    n = compare_pointwise(out, contract, result, oracle, tags, "eager result")
    if n:
        out.ev(contract, "", nontrivial=len(oracle.envs) > 1 or bool(np.asarray(oracle.values[0]).shape))
    return out


def check_c06b(case, meta, out=None):
    """declared type of the lazy term vs textbook prediction; vs eager result's type and data"""
    out = out or Outcome()
    tags = tuple(meta.get("tags", ()))
    if case.lazy is None:
        return out
    t = case.lazy
    pred_inputs = meta.get("inputs")
    pred_out = meta.get("out")
    if pred_inputs is not None:
        declared = OrderedDict((k, dom_of_funsor_domain(d)) for k, d in t.inputs.items())
        out.ev("C06.lazy_declared_type", "")
        if dict(declared) != {k: tuple(v) for k, v in pred_inputs}:
            out.bad("C06.lazy_declared_type", "declared inputs %s != predicted %s" % (dict(declared), dict(pred_inputs)), tags)
        elif list(declared) != [k for k, _ in pred_inputs]:
            out.skip("note:input_order_differs_from_prediction")
            out.notes.append("input order %s differs from predicted %s: %s" % (list(declared), [k for k, _ in pred_inputs], case.src[:200]))
        do = dom_of_funsor_domain(t.output)
        ps, pshape = pred_out
        if tuple(do.shape) != tuple(pshape) or (ps is not None and do.size != ps) or (ps is None and do.size == "real"):
            out.bad("C06.lazy_declared_type", "declared output %s != predicted %s" % (t.output, (ps, pshape)), tags)
    result = getattr(case, "eager", None)
    if result is None:
        try:
            result = build(case.ns, case.src)
        except Exception:
            ensure_default_stack()
            out.declined += 1
            return out
    if not isinstance(result, Funsor):
        return out
    out.ev("C06.eager_type", "")
    if not same_domain(result.output, t.output):
        out.bad("C06.eager_type", "eager output %s != lazily declared output %s" % (result.output, t.output), tags)
    off = inputs_subset(result, t)
    if off:
        out.bad("C06.eager_type", "eager inputs %s not among declared %s" % (dict(result.inputs), dict(t.inputs)), tags)
    if isinstance(result, Tensor):
        expect = tuple(d.size for d in result.inputs.values()) + tuple(result.output.shape)
        if tuple(result.data.shape) != expect:
            out.bad("C06.eager_data", "data.shape %s != batch sizes + output.shape %s" % (result.data.shape, expect), tags)
    if D.is_evaluated(result) and isinstance(result.output.dtype, int):
        out.ev("C06.eager_data", "")
        data = np.asarray(result.data)
        size = result.output.dtype
        if data.dtype.kind not in "biu":
            if not np.all(data == np.floor(data)) or np.any(data < 0) or np.any(data >= size):
                out.bad("C06.eager_data", "bounded-int output %s holds non-integer data of dtype %s: %s"
                        % (result.output, data.dtype, data.ravel()[:6].tolist()), tags + ("bint-range",))
        elif data.size and (data.min() < 0 or data.max() >= size):
            out.bad("C06.eager_data", "bounded-int output %s holds values outside [0,%d): min %s max %s"
                    % (result.output, size, data.min(), data.max()), tags + ("bint-range",))
    return out


CONTEXTS = {
    "lazy": lambda: [lazy],
    "reflect": lambda: [reflect],
    "normalize": lambda: [normalize],
    "memoize": lambda: [memoize()],
    "lazy>memoize": lambda: [lazy, memoize()],
    "memoize>lazy": lambda: [memoize(), lazy],
    "normalize>memoize": lambda: [normalize, memoize()],
    "memoize>normalize": lambda: [memoize(), normalize],
    "reflect>lazy": lambda: [reflect, lazy],
}


class nested:
    def __init__(self, managers):
        self.managers = managers

    def __enter__(self):
        self.entered = []
        for m in self.managers:
            m.__enter__()
            self.entered.append(m)

    def __exit__(self, *args):
        for m in reversed(self.entered):
            m.__exit__(*args)


def check_c03(case, meta, contexts, out=None):
    """build under each deferred context, reinterpret eagerly with both reinterpreters, compare with the
    immediate eager build (same output domain, same value everywhere, inputs among the expression's)"""
    out = out or Outcome()
    tags = tuple(meta.get("tags", ()))
    if case.ref is None:
        out.skip("reflect_build_raised")
        return out
    try:
        immediate = build(case.ns, case.src)
    except Exception:
        ensure_default_stack()
        out.declined += 1
        return out
    if not isinstance(immediate, Funsor):
        return out
    # reference values: the immediate eager build (observed through data or, if lazy, den)
    space_inputs = case.ref.inputs
    envs, _ = D.env_space(space_inputs, case.seed, N_REAL_SAMPLES)
    ref = []
    try:
        for env in envs:
            try:
                ref.append(observe(immediate, env))
            except D.UndefinedPoint:
                ref.append(None)
    except (D.Unsupported, KeyError) as exc:
        out.skip("immediate_outside_den: " + str(exc)[:60])
        return out

    oracle = case.get_oracle()
    den_values = oracle.values if (oracle.ok and len(oracle.values) == len(envs)) else None

    def defined_only(actual, expected, idx):
        """drop the elements at which the textbook value is undefined (x/0, log of a negative ...): funsor's
        eager and normalized evaluations legitimately differ there (inf vs clipped reciprocal)"""
        if den_values is None or den_values[idx] is None or isinstance(den_values[idx], tuple):
            return actual, expected
        d = np.asarray(den_values[idx])
        a, e = np.asarray(actual), np.asarray(expected)
        if d.dtype.kind != "f" or a.shape != d.shape or e.shape != d.shape or not np.any(np.isnan(d)):
            return actual, expected
        keep = ~np.isnan(d)
        return a[keep], e[keep]

    def compare(contract, result, what):
        if not isinstance(result, Funsor):
            out.skip("non_funsor_result")
            return
        if not same_domain(result.output, immediate.output):
            out.bad(contract, "%s: output %s != immediate eager output %s" % (what, result.output, immediate.output), tags)
        off = inputs_subset(result, case.ref)
        if off:
            out.bad(contract, "%s: inputs %s not among the expression's %s" % (what, dict(result.inputs), dict(space_inputs)), tags)
        n = 0
        for idx, (env, expected) in enumerate(zip(envs, ref)):
            if expected is None:
                continue
            try:
                actual = observe(result, env)
            except D.UndefinedPoint:
                continue
            except D.Unsupported as exc:
                out.skip("deferred_result_outside_den")
                return
            except KeyError as exc:
                out.bad(contract, "%s mentions a free variable missing from its inputs: %s" % (what, exc), tags)
                return
            actual, expected = defined_only(actual, expected, idx)
            ok, why = D.agree(actual, expected)
            n += 1
            if not ok:
                out.bad(contract, "%s differs from the immediate eager build at %s: %s" % (what, env, why), tags)
                break
        if n:
            out.ev(contract, what, nontrivial=len(envs) > 1)

    for cname in contexts:
        try:
            with nested(CONTEXTS[cname]()):
                deferred = eval(case.src, case.ns)
        except Exception:
            ensure_default_stack()
            out.declined += 1
            continue
        ensure_default_stack()
        for rname, rein in (("recursion", recursion_reinterpret), ("stack", stack_reinterpret)):
            try:
                again = rein(deferred)
            except Exception:
                ensure_default_stack()
                out.declined += 1
                continue
            compare("C03.deferred_equals_immediate", again, "%s/%s" % (cname, rname))
    # sequential
    try:
        seq = build(case.ns, case.src, sequential)
    except Exception:
        ensure_default_stack()
        out.declined += 1
        seq = None
    if seq is not None:
        compare("C03.sequential", seq, "sequential")
    # memoize: identical object for the identical expression, never somebody else's result
    try:
        with memoize():
            a = eval(case.src, case.ns)
            b = eval(case.src, case.ns)
            other = meta.get("other_src")
            c = eval(other, case.ns) if other else None
            a2 = eval(case.src, case.ns)
    except Exception:
        ensure_default_stack()
        out.declined += 1
        return out
    out.ev("C03.memoize_identity", "", nontrivial=True)
    if a is not b or a is not a2:
        out.bad("C03.memoize_identity", "building the same expression twice inside one memoize() gave distinct objects", tags)
    compare("C03.memoize_value", a, "memoize(eager)")
    return out


# ----------------------------------------------------------------------------------------------
# replay scripts


def replay_script(kind, src, fill, seed, meta, extra=""):
    return (
        PREAMBLE
        + "\nsys.path.insert(0, '/verif/rtc')\n"
        + "import terms_contracts as TC, terms_gen as TG\n"
        + "ns = TG.namespace(%r, %r)\n" % (fill, seed)
        + "SRC = %r\n" % (src,)
        + "META = %r\n" % (meta,)
        + "# the failing input, as built lazily and eagerly by the real code:\n"
        + "FILL, SEED = %r, %r\n" % (fill, seed)
        + "try:\n    print('eager  :', repr(eval(SRC))[:600])\nexcept Exception as e:\n    print('eager raised:', type(e).__name__, e)\n"
        + "try:\n    print('reflect:', repr(TC.build(globals(), SRC, reflect))[:600])\nexcept Exception as e:\n    print('reflect raised:', type(e).__name__, e)\n"
        + extra
        + "out = TC.run_check(%r, ns, SRC, %r, META)\n" % (kind, seed)
        + "for v in out.violations:\n    print('VIOLATION', v)\n"
        + "sys.exit(1 if out.violations else 0)\n"
    )


def run_check(kind, ns, src, seed, meta):
    case = Case(ns, src, seed, meta.get("ref"))
    out = Outcome()
    if kind == "C01":
        check_c01(case, meta, out)
    elif kind == "C06b":
        check_c06b(case, meta, out)
    elif kind == "C03":
        check_c03(case, meta, meta.get("contexts", list(CONTEXTS)), out)
    else:
        raise ValueError(kind)
    return out
