"""drv_gauss: bounded run-time contract checks for C12 (Gaussian pointwise algebra), C13 (marginals,
normalisers, integrals) and C14 (Delta semantics, mass-preserving sampling).

Contracts are evaluated on the REAL funsor functions (funsor/gaussian.py, affine.py, joint.py, integrate.py,
delta.py, montecarlo.py, tensor.py) against the naive dense oracle of gauss_core.py (plain numpy; (P, eta, c) per
batch element).  Cases are plain-data specs interpreted by gauss_core.run_case; a replay script is the source of
gauss_core + the spec.
"""
import hashlib
import inspect
import json
import multiprocessing
import os
import sys
import time
from collections import Counter, OrderedDict

import numpy as np

HERE = os.path.dirname(os.path.abspath(__file__))
if HERE not in sys.path:
    sys.path.insert(0, HERE)
if os.environ.get("VERIF_REPO", "/repo") not in sys.path:
    sys.path.insert(0, os.environ.get("VERIF_REPO", "/repo"))

import common
from common import RtcResult

import gauss_core as C
import gauss_gen as G

PROPERTIES = ["C12", "C13", "C14"]
DRIVER = "rtc/drv_gauss.py"

# ------------------------------------------------------------------------------------------------
# replay scripts


_CORE_SRC = []


def _core_source():
    if not _CORE_SRC:
        src = open(os.path.join(HERE, "gauss_core.py")).read()
        _CORE_SRC.append(src.replace("from common import close  # REPLAY-STRIP\n", ""))
    return _CORE_SRC[0]


def make_replay(spec, contract, standalone=True):
    spec_txt = json.dumps(spec)
    tail = (
        "\n\n# ---- replay ----\nimport json\n"
        "SPEC = json.loads(%r)\n"
        "CONTRACT = %r\n"
        "bad = [r for r in run_case(SPEC) if r['status'] == 'fail']\n"
        "for r in bad:\n    print('VIOLATION', r['contract'], r['tags'], r['detail'])\n"
        "sys.exit(1 if bad else 0)\n" % (spec_txt, contract)
    )
    if standalone:
        head = (
            "# stand-alone replay of a drv_gauss failure (contract %s)\n"
            "import sys, os\nsys.path.insert(0, os.environ.get('VERIF_REPO', '/repo'))\nimport numpy as np\n"
            "RTOL = %r\nATOL = %r\n\n%s\n\n" % (contract, common.RTOL, common.ATOL, inspect.getsource(common.close))
        )
        return head + _core_source() + tail
    head = "# replay of a drv_gauss failure (contract %s); uses /verif/rtc/gauss_core.py\nimport sys, os\nsys.path[:0] = [os.environ.get('VERIF_REPO', '/repo'), %r]\nfrom gauss_core import *\n" % (contract, HERE)
    return head + tail


# ------------------------------------------------------------------------------------------------
# recording

PER_UNIT_CAP = 2  # failures of one class recorded individually per work unit
PER_CLASS_CAP = 40  # ... and per run; every failure is still counted in the notes
NOISE_PREFIX = ("rank", "order:", "ctor:", "depth:", "threshold:", "rhs_", "expr:", "lhs:", "dim:", "batch:", "sub:", "sampled:", "sample_inputs:", "var:", "log_density:", "f:", "split:", "after:", "raised:", "prev:")


def failure_class(r):
    return (r["contract"],) + tuple(sorted(t for t in r["tags"] if not t.startswith(NOISE_PREFIX)))


def digest(obj):
    return hashlib.sha1(json.dumps(obj, sort_keys=True).encode()).hexdigest()[:16]


def case_key(spec, r):
    if spec["kind"] == "chain":
        j = r.get("step", len(spec["ops"]))
        return ("chain", digest([spec["leaf"], spec["ops"][:j], spec.get("threshold", 2)]))
    return (spec["kind"], digest(spec), r.get("step", 0), r["contract"])


def short_case(spec, label):
    d = {"kind": spec["kind"], "label": label}
    if "leaf" in spec:
        d["inputs"] = spec["leaf"]["inputs"]
        d["ctor"] = sorted(spec["leaf"]["args"])
        if "prec_sqrt" in spec["leaf"]["args"]:
            d["rank"] = spec["leaf"]["args"]["prec_sqrt"]["s"][-1]
    for k in ("threshold", "pseed", "npseed", "reduce", "sampled", "sample_inputs", "names"):
        if k in spec:
            d[k] = spec[k]
    return d


def truncate(spec, r):
    """smallest prefix of a chain spec that still contains the failing step"""
    if spec["kind"] == "chain" and "step" in r:
        s = dict(spec)
        s["ops"] = spec["ops"][: r["step"]]
        return s
    return spec


class Recorder:
    def __init__(self, prop):
        self.res = RtcResult(prop, DRIVER)
        self.classes = Counter()
        self.skipped = 0

    def finish(self):
        for cls, n in self.classes.items():
            self.res.notes.append("FAILCLASS\t%d\t%s" % (n, " | ".join(cls)))
        if self.skipped:
            self.res.notes.append("generated outside the precondition (skipped): %d" % self.skipped)
        return self.res

    def run(self, spec, label):
        try:
            recs = C.run_case(spec)
        except Exception as e:  # a bug of the driver itself must not look like a funsor failure
            self.res.notes.append("DRIVER ERROR on %s: %s: %s" % (label, type(e).__name__, e))
            return
        for r in recs:
            if r["status"] == "declined":
                if r["contract"] == "precondition":  # the generator missed the precondition: not funsor declining
                    self.skipped += 1
                else:
                    self.res.declined += 1
                continue
            self.res.evaluated(r["contract"], case_key(spec, r), r.get("nontrivial", True), sample=None)
            if r["status"] == "fail":
                cls = failure_class(r)
                self.classes[cls] += 1
                if self.classes[cls] > PER_UNIT_CAP:
                    continue  # counted in self.classes (reported in the notes), not recorded individually
                tspec = truncate(spec, r)
                replay = make_replay(tspec, r["contract"], standalone=self.classes[cls] <= 1)
                self.res.fail(r["contract"], short_case(spec, label), r["detail"], replay, r["tags"])


# ------------------------------------------------------------------------------------------------
# work units (executed in worker processes; each returns an RtcResult)


def unit_c12_ctor(args):
    """GaussianMeta.__call__ for one signature: 9 parametrisations x ranks x compression thresholds"""
    sig, seed = args
    R = Recorder("C12")
    rs = np.random.RandomState(seed)
    dim = G.sig_dim(sig)
    n = 0
    for ctor in G.CTORS:
        ranks = G.rank_set(dim) if ctor[1] == "prec_sqrt" else [dim]
        if ctor == ("info_vec", "prec_sqrt"):
            ranks = [r for r in ranks if r >= dim]  # precondition: the information vector lies in range(P)
        for rank in ranks:
            for th in ([2, 1, "inf"] if rank > dim else [2]):
                leaf = G.gen_leaf(rs, sig, rank, ctor)
                spec = {"kind": "chain", "leaf": leaf, "ops": [], "pseed": (seed * 1000 + n) % 4294967291, "threshold": th}
                n += 1
                R.run(spec, "ctor:%s+%s:rank=%d:th=%s" % (ctor[0], ctor[1], rank, th))
    return R.finish()


def unit_c12_depth1(args):
    """every operation of gauss_gen.all_steps applied to one leaf (signature x rank)"""
    sig, rank, seed, stride, offset = args
    R = Recorder("C12")
    rs = np.random.RandomState(seed)
    leaf = G.gen_leaf(rs, sig, rank)
    O = C.orc_leaf(leaf)
    steps = G.all_steps(rs, O.inputs)
    for k, (label, step) in enumerate(steps):
        if (k + offset) % stride:
            continue
        spec = {"kind": "chain", "leaf": leaf, "ops": [step], "pseed": (seed * 1000 + k) % 4294967291, "check_leaf": False}
        R.run(spec, label)
    return R.finish()


def unit_c12_compress(args):
    dim, rank, bshape, seed = args
    R = Recorder("C12")
    rs = np.random.RandomState(seed)
    S = np.zeros(tuple(bshape) + (dim, rank))
    for b in np.ndindex(*bshape):
        S[b] = G.rand_prec_sqrt(rs, dim, rank)
    w = rs.randn(*(tuple(bshape) + (rank,)))
    for mode in (False, True):
        spec = {"kind": "compress_rank", "white_vec": C.enc(w), "prec_sqrt": C.enc(S), "assume_full_rank": mode, "pseed": seed}
        R.run(spec, "compress_rank:dim=%d:rank=%d:batch=%s:%s" % (dim, rank, list(bshape), "cholesky" if mode else "qr"))
    return R.finish()


def unit_c12_affine(args):
    shapes, with_batch, seed = args
    R = Recorder("C12")
    rs = np.random.RandomState(seed)
    for k, (label, e) in enumerate(G.affine_test_exprs(rs, shapes, with_batch)):
        R.run({"kind": "extract_affine", "expr": e, "pseed": (seed * 100 + k) % 4294967291}, "extract_affine:" + label)
    return R.finish()


def unit_c12_chains(args):
    sigs, depth, count, seed = args
    R = Recorder("C12")
    rs = np.random.RandomState(seed)
    for k in range(count):
        sig = sigs[rs.randint(len(sigs))]
        dim = G.sig_dim(sig)
        ctor = G.CTORS[rs.randint(len(G.CTORS))] if rs.rand() < 0.3 else G.CTORS[0]
        rank = G.rand_rank(rs, dim) if ctor[1] == "prec_sqrt" else dim
        if ctor == ("info_vec", "prec_sqrt"):
            rank = max(rank, dim)
        leaf = G.gen_leaf(rs, sig, rank, ctor)
        ops_, labels = G.gen_chain_ops(rs, C.orc_leaf, C.orc_step, leaf, depth)
        th = [2, 2, 1, "inf"][rs.randint(4)]
        spec = {"kind": "chain", "leaf": leaf, "ops": ops_, "pseed": (seed * 100000 + k) % 4294967291, "check_leaf": False, "threshold": th}
        R.run(spec, "chain:" + " > ".join(labels))
    return R.finish()


def unit_c13_sig(args):
    """C13 programs / integrands / moment-matching / error-clause cases for one signature.  Two strides: whole
    (signature, rank) leaves are skipped (rank_stride, rotating with the signature index) before anything is generated,
    and inside a kept leaf every `stride`-th case is run."""
    sig, sig_index, seed, rank_stride, stride = args
    R = Recorder("C13")
    dim = G.sig_dim(sig)
    n = sig_index

    def go(label, spec):
        nonlocal n
        n += 1
        if n % stride:
            return
        spec["pseed"] = (seed * 1000 + n) % 4294967291
        R.run(spec, label)

    for r_idx, rank in enumerate([r for r in G.rank_set(dim) if r >= 1]):
        if (sig_index + r_idx) % rank_stride:
            continue
        rs = G.sub_rs(seed, r_idx)
        leaf = G.gen_leaf(rs, sig, rank, blocks=True)
        for label, prog, tensor in G.c13_programs(rs, sig, rank):
            go(label, {"kind": "reduce_program", "leaf": leaf, "program": prog, "tensor": tensor})
        if rank >= dim:
            for label, ig, names in G.c13_integrands(rs, sig):
                go(label, {"kind": "integrate", "leaf": leaf, "integrand": ig, "names": names})
            for label, ig, names, tensor in G.c13_mixture_integrands(rs, sig):
                go(label, {"kind": "integrate", "leaf": leaf, "integrand": ig, "names": names, "tensor": tensor})
            if G.sig_batch(sig):
                for label, t, names in G.c13_mm(rs, sig):
                    go(label, {"kind": "moment_matching", "leaf": leaf, "tensor": t, "names": names})
    if sig_index % rank_stride == 0:
        rs = G.sub_rs(seed, 99)
        for label, frag in G.c13_deficient(rs, sig):
            go(label, dict(frag, kind="deficient"))
    return R.finish()


def _seeded(spec, seed, n):
    spec["pseed"] = (seed * 1000 + n) % 4294967291
    spec["npseed"] = (seed * 7 + n) % 4294967291
    return spec


def unit_c14_delta(args):
    seed, part, parts = args
    R = Recorder("C14")
    rs = np.random.RandomState(seed)
    n = 0
    for label, frag in G.delta_specs(rs):
        fcases = G.delta_f_specs(rs, frag)
        n += 1
        if n % parts != part:
            continue
        R.run(_seeded(dict(frag, kind="delta_eval"), seed, n), "delta_eval:" + label)
        for fl, f, vias in fcases:
            for via in vias:
                R.run(_seeded(dict(frag, kind="delta_reduce", f=f, via=via), seed, n), "delta_%s:%s:%s" % (via, label, fl))
    return R.finish()


def unit_c14_tensor(args):
    seed, sizes_pool, reps, part, parts = args
    R = Recorder("C14")
    rs = np.random.RandomState(seed)
    for n, (label, frag) in enumerate(G.tensor_sample_specs(rs, sizes_pool, reps)):
        f = {"t": "tensor", "tensor": G.tensor_spec(rs, [tuple(t) for t in frag["tensor"]["inputs"]][::-1] + [("m", 2)])}
        if n % parts != part:
            continue
        R.run(_seeded(dict(frag, kind="tensor_sample"), seed, n), label)
        R.run(_seeded(dict(frag, kind="mc_tensor", f=f), seed, n), label.replace("tensor_sample", "mc_tensor"))
    return R.finish()


def unit_c14_gauss(args):
    sig, seed, part, parts = args
    R = Recorder("C14")
    n = 0
    for label, frag in G.gaussian_sample_specs(seed, sig, keep=lambda idx: idx % parts == part):
        n += 1
        R.run(_seeded(dict(frag, kind="gaussian_sample"), seed, part * 10000 + n), label)
    if part == 0:
        rs = np.random.RandomState(seed)
        for label, frag in G.mc_gaussian_specs(rs, sig):
            n += 1
            R.run(_seeded(dict(frag, kind="mc_gaussian"), seed, part * 10000 + n), label)
    if part == parts - 1:
        rs = np.random.RandomState(seed + 1)
        for label, frag in G.mixture_sample_specs(rs, sig):
            n += 1
            R.run(_seeded(dict(frag, kind="mixture_sample"), seed, part * 10000 + n), label)
    return R.finish()


UNITS = {
    "c12_ctor": unit_c12_ctor,
    "c12_depth1": unit_c12_depth1,
    "c12_compress": unit_c12_compress,
    "c12_affine": unit_c12_affine,
    "c12_chains": unit_c12_chains,
    "c13_sig": unit_c13_sig,
    "c14_delta": unit_c14_delta,
    "c14_tensor": unit_c14_tensor,
    "c14_gauss": unit_c14_gauss,
}


def _limit_blas_threads():
    """the matrices here are tiny: BLAS worker threads only cause oversubscription under 16 processes"""
    try:
        import ctypes
        import glob

        for p in glob.glob(os.path.join(os.path.dirname(np.__file__), "..", "numpy.libs", "lib*openblas*.so*")):
            lib = ctypes.CDLL(p)
            for sym in ("scipy_openblas_set_num_threads64_", "scipy_openblas_set_num_threads", "openblas_set_num_threads64_", "openblas_set_num_threads"):
                if hasattr(lib, sym):
                    getattr(lib, sym)(1)
                    break
    except Exception:
        pass


def _run_unit(u):
    name, args = u
    np.random.seed(0)
    return UNITS[name](args)


# ------------------------------------------------------------------------------------------------
# plans


def plan_c12(tier, seed):
    rs = np.random.RandomState(seed)
    units = []
    bounds = OrderedDict()
    if tier == "quick":
        shapes, sizes = [(), (2,), (2, 2)], [1, 2, 3]
        sigs = list(G.signatures(shapes, sizes, max_reals=3, max_ints=2, max_dim=6))
        sig_stride, step_stride = 9, 3
        chain_depth, chain_units, chain_count = 2, 32, 60
    else:
        shapes, sizes = [(), (1,), (2,), (3,), (1, 2), (2, 2)], [1, 2, 3]
        sigs = list(G.signatures(shapes, sizes, max_reals=3, max_ints=2, max_dim=9))
        sig_stride, step_stride = 14, 3
        chain_depth, chain_units, chain_count = 3, 100, 150
    bounds.update(
        real_input_shapes=[list(s) for s in shapes], batch_sizes=sizes, max_real_inputs=3, max_batch_inputs=2,
        signatures_in_space=len(sigs), signature_stride=sig_stride, step_stride=step_stride,
        ranks="{0,1,dim-1,dim,dim+1,2dim,2dim+1}", points_per_evaluation=5,
        constructors=["+".join(c) for c in G.CTORS], compression_thresholds=[1, 2, "inf"],
        chain_depth=chain_depth, chains=chain_units * chain_count,
        nontrivial_rule="the oracle values at the evaluation points are not all equal (for results without inputs: the value is not 0)",
    )
    # every signature gets the constructor contract (strided), and the depth-1 operations (strided, rotating offset)
    picked = [s for k, s in enumerate(sigs) if (k + seed) % sig_stride == 0]
    for k, sig in enumerate(picked):
        units.append(("c12_ctor", (sig, int(rs.randint(1 << 30)))))
    n = 0
    for k, sig in enumerate(picked):
        for rank in G.rank_set(G.sig_dim(sig)):
            units.append(("c12_depth1", (sig, rank, int(rs.randint(1 << 30)), step_stride, n % step_stride)))
            n += 1
    bounds["signatures_enumerated"] = len(picked)
    # _compress_rank directly
    dims = [1, 2, 3, 4, 6] if tier == "quick" else list(range(1, 10))
    for dim in dims:
        for rank in sorted({dim, dim + 1, 2 * dim, 2 * dim + 1}):
            for bshape in ([], [2], [1, 3]) if tier == "quick" else ([], [1], [3], [2, 3], [1, 1, 2]):
                units.append(("c12_compress", (dim, rank, bshape, int(rs.randint(1 << 30)))))
    bounds["compress_rank_dims"] = dims
    for with_batch in (False, True):
        for rep in range(2 if tier == "quick" else 10):
            units.append(("c12_affine", ([(), (2,), (3,), (2, 2)] if tier == "quick" else [(), (1,), (2,), (3,), (1, 2), (2, 2), (3, 2)], with_batch, int(rs.randint(1 << 30)))))
    chains = [("c12_chains", (sigs, chain_depth, chain_count, int(rs.randint(1 << 30)))) for k in range(chain_units)]
    return chains + units, bounds, False  # the heavy units first (load balance)


def plan_c13(tier, seed):
    rs = np.random.RandomState(seed + 13)
    if tier == "quick":
        shapes, sizes, max_dim, rank_stride, stride = [(), (2,), (2, 2)], [1, 2, 3], 6, 6, 8
    else:
        shapes, sizes, max_dim, rank_stride, stride = [(), (1,), (2,), (3,), (2, 2)], [1, 2, 3], 7, 3, 10
    sigs = list(G.signatures(shapes, sizes, max_reals=3, max_ints=2, max_dim=max_dim))
    units = [("c13_sig", (sig, k + seed, int(rs.randint(1 << 30)), rank_stride, stride)) for k, sig in enumerate(sigs)]
    units.sort(key=lambda u: -(len(u[1][0]) * 10 + G.sig_dim(u[1][0])))  # heavy signatures first (load balance)
    bounds = OrderedDict(
        real_input_shapes=[list(s) for s in shapes], batch_sizes=sizes, max_real_inputs=3, max_batch_inputs=2, max_total_dim=max_dim,
        signatures_enumerated=len(sigs), input_orders="every interleaving of integer and real inputs",
        ranks="{1,dim-1,dim,dim+1,2dim,2dim+1} restricted to rank >= dim of the integrated block (error clause: rank < dim_b and structurally deficient blocks)",
        reduced_subsets="every non-empty subset of the real inputs (contiguous and interleaved), every non-empty subset of the batch inputs",
        programs="marg, marg+ints, marg;marg, eval;marg, marg;eval, log_normalizer, plate, plate;marg, plate;plate, mixtures t+g with 4 tensor layouts, Integrate(var|affine|gaussian|neg_gaussian|sum_gaussians) with Gaussian and mixture measures, moment_matching",
        rank_stride=rank_stride, case_stride=stride, points_per_evaluation=5,
        strides="every signature is visited; of its ranks every rank_stride-th (rotating with the signature index); of the cases of a kept (signature, rank) every case_stride-th",
        nontrivial_rule="the oracle values at the evaluation points are not all equal (for results without inputs: the value is not 0); error-clause cases always count",
    )
    return units, bounds, False


def plan_c14(tier, seed):
    rs = np.random.RandomState(seed + 14)
    units = []
    if tier == "quick":
        shapes, sizes, max_dim, sig_stride, reps, delta_reps = [(), (2,), (2, 2)], [1, 2, 3], 6, 36, 1, 1
    else:
        shapes, sizes, max_dim, sig_stride, reps, delta_reps = [(), (1,), (2,), (3,), (2, 2)], [1, 2, 3], 7, 28, 24, 8
    sigs = list(G.signatures(shapes, sizes, max_reals=3, max_ints=2, max_dim=max_dim))
    picked = [s for k, s in enumerate(sigs) if (k + seed) % sig_stride == 0]
    for sig in picked:
        sd = int(rs.randint(1 << 30))
        parts = 1 + (len(sig) - 1) * 2
        for part in range(parts):
            units.append(("c14_gauss", (sig, sd, part, parts)))
    units.sort(key=lambda u: -(len(u[1][0]) * 10 + G.sig_dim(u[1][0])))
    for rep in range(delta_reps):
        sd = int(rs.randint(1 << 30))
        for part in range(16):
            units.append(("c14_delta", (sd, part, 16)))
    sd = int(rs.randint(1 << 30))
    tparts = 32 if tier == "quick" else 128
    units = [("c14_tensor", (sd, [1, 2, 3, 4], reps, part, tparts)) for part in range(tparts)] + units  # heavy units first
    bounds = OrderedDict(
        tensor_inputs="1-3 inputs, every size tuple over {1,2,3,4}, entries -inf with probability 0 / 0.3 / 0.6 (rows that are entirely -inf included)",
        tensor_sampled_subsets="every non-empty subset", sample_inputs="0, 1 (size 2), 2 (sizes 3,2)", tensor_repetitions=reps,
        delta_variable_domains=["Real", "Reals[1]", "Reals[2]", "Reals[3]", "Reals[2,2]", "Bint[1]", "Bint[2]", "Bint[4]"],
        delta_points="Number, python float, Tensor (0,1,2 batch inputs), lazy: Variable, affine, affine with batch input, sum of two variables, getitem",
        delta_log_density="default, 0.0, Number, Tensor sharing the batch input of the point, Tensor with its own batch input (reduce / Integrate contracts: unit mass only)",
        delta_evaluation_styles=["Tensor values (stacked and single)", "funsor Number", "python number"], delta_repetitions=delta_reps,
        gaussian_real_input_shapes=[list(s) for s in shapes], gaussian_batch_sizes=sizes, gaussian_signatures_in_space=len(sigs), gaussian_signatures_enumerated=len(picked),
        gaussian_sampled_subsets="every non-empty subset of the real inputs with dim <= rank", gaussian_ranks="{dim_a..2dim} from {1,dim-1,dim,dim+1,2dim}",
        gaussian_sample_inputs="none, 1 Bint, 2 Bint, one real noise input (reparametrised)",
        montecarlo="Integrate under MonteCarlo(**sample_inputs) for tensors (every case above) and Gaussians (integrands var / affine / square / Gaussian)",
        nontrivial_rule="tensor sampling: some row offers >= 2 points with finite weight; pointwise contracts: the oracle values at the evaluation points are not all equal; all other contracts: always",
    )
    return units, bounds, False


PLANS = {"C12": plan_c12, "C13": plan_c13, "C14": plan_c14}


def run(prop_id, tier="quick", seed=0, jobs=16):
    assert prop_id in PROPERTIES and tier in ("quick", "thorough")
    res = RtcResult(prop_id, DRIVER)
    units, bounds, exhaustive = PLANS[prop_id](tier, seed)
    res.bounds.update(bounds)
    res.bounds["tier"] = tier
    res.bounds["seed"] = seed
    res.exhaustive = exhaustive
    if jobs > 1:
        ctx = multiprocessing.get_context("fork")
        with ctx.Pool(jobs, initializer=_limit_blas_threads) as pool:
            parts = []
            t_last = time.time()
            for k, p in enumerate(pool.imap(_run_unit, units, chunksize=1)):
                parts.append(p)
                if os.environ.get("RTC_PROGRESS") and time.time() - t_last > 30:
                    t_last = time.time()
                    print("[drv_gauss %s %s] %d/%d units, %.0fs" % (prop_id, tier, k + 1, len(units), time.time() - res.t0), file=sys.stderr, flush=True)
    else:
        parts = [_run_unit(u) for u in units]
    for p in parts:
        res.merge(p)
    res.bounds["work_units"] = len(units)
    skipped = sum(int(n.rsplit(" ", 1)[1]) for n in res.notes if n.startswith("generated outside the precondition"))
    derr = [n for n in res.notes if n.startswith("DRIVER ERROR")]
    res.notes = [n for n in res.notes if not n.startswith(("generated outside the precondition", "DRIVER ERROR"))]
    if skipped:
        res.notes.append("cases generated outside the precondition and skipped: %d" % skipped)
    if derr:
        res.notes.append("DRIVER ERRORS: %d (first: %s)" % (len(derr), derr[0][:300]))
    classes = Counter()
    for n in res.notes:
        if n.startswith("FAILCLASS\t"):
            _, cnt, cls = n.split("\t", 2)
            classes[cls] += int(cnt)
    res.notes = [n for n in res.notes if not n.startswith("FAILCLASS\t")]
    kept, per = [], Counter()
    for f in res.failures:
        cls = " | ".join([f["contract"]] + sorted(t for t in f["tags"] if not t.startswith(NOISE_PREFIX)))
        per[cls] += 1
        if per[cls] <= PER_CLASS_CAP:
            kept.append(f)
    res.failures = kept
    for k, v in sorted(classes.items()):
        res.notes.append("failure class x%d (violated postconditions; %d recorded individually with replay): %s" % (v, min(per[k], PER_CLASS_CAP), k))
    res.bounds["violations_total"] = int(sum(classes.values()))
    return res


if __name__ == "__main__":
    prop = sys.argv[1]
    tier = sys.argv[2] if len(sys.argv) > 2 else "quick"
    jobs = int(sys.argv[3]) if len(sys.argv) > 3 else 16
    t0 = time.time()
    res = run(prop, tier, 0, jobs)
    print(json.dumps(res.to_json()))
    shown = Counter()
    for f in res.failures:
        cls = (f["contract"],) + tuple(sorted(t for t in f["tags"] if not t.startswith(NOISE_PREFIX)))
        shown[cls] += 1
        if shown[cls] <= 3:
            print("FAILURE", f["contract"], json.dumps(f["case"]), f["tags"], "::", f["detail"][:400])
    for n in res.notes:
        print("NOTE", n)
    print("wall %.1fs" % (time.time() - t0), file=sys.stderr)
