import sys, time, collections
sys.path.insert(0, "/verif/rtc")
import numpy as np
import gauss_core as C, gauss_gen as G
rs = np.random.RandomState(0)
sigs = list(G.signatures([(), (2,), (2,2)], [1,2,3], max_reals=2, max_ints=2))
print(len(sigs))
t0=time.time()
stat=collections.Counter(); fails=collections.defaultdict(list)
n=0
for sig in sigs[::17]:
    dim=G.sig_dim(sig)
    for rank in G.rank_set(dim):
        leaf=G.gen_leaf(rs, sig, rank)
        O=C.orc_leaf(leaf)
        for label, step in G.enumerate_steps(rs, O.inputs):
            spec={"kind":"chain","leaf":leaf,"ops":[step],"pseed":n}
            n+=1
            for r in C.run_case(spec):
                stat[r["status"]]+=1
                if r["status"]!="ok":
                    key=(r["status"], r["contract"], label.split(":")[0]+":"+label.split(":")[1] if ":" in label else label, tuple(t for t in r["tags"] if t.startswith(("raises","value","inputs","rank","order"))))
                    fails[key].append((sig, rank, label, r["detail"][:300]))
print(n, stat, time.time()-t0)
for k,v in sorted(fails.items(), key=lambda kv: -len(kv[1])):
    print(len(v), k); print("    ", v[0])
