"""C19: conversions and re-alignment never move data to the wrong name (bounded run-time contract).

Oracle: plain numpy indexing / python loops over all named points.  The layout convention of
``Tensor`` (leading data dims follow ``.inputs`` order) and the documented closed form of ``Gaussian``
(``-0.5 * ||x @ prec_sqrt - white_vec||^2``) and ``Delta`` (log_density if value == point else -inf)
are the specification; nothing of funsor's alignment machinery is used on the oracle side.
"""
import itertools
import sys

sys.path.insert(0, __import__("os").environ.get("VERIF_REPO", "/repo"))
from collections import OrderedDict  # noqa: E402

import numpy as np  # noqa: E402

import funsor  # noqa: E402
from funsor import ops  # noqa: E402
from funsor.cnf import Contraction  # noqa: E402
from funsor.delta import Delta  # noqa: E402
from funsor.domains import Array, Bint, Real, Reals  # noqa: E402
from funsor.gaussian import Gaussian  # noqa: E402
from funsor.interpretations import eager, lazy, normalize, reflect  # noqa: E402
from funsor.tensor import Tensor  # noqa: E402
from funsor.terms import Align, Funsor, Number, Slice, Variable, to_data, to_funsor  # noqa: E402

funsor.set_backend("numpy")

RTOL, ATOL = 1e-6, 1e-8
NAMES = ["d", "b", "e", "a", "c", "g"]  # deliberately not in alphabetical order


def close(a, b):
    a = np.asarray(a, dtype=float)
    b = np.asarray(b, dtype=float)
    if a.shape != b.shape:
        try:
            a, b = np.broadcast_arrays(a, b)
        except ValueError:
            return False
    fin = np.isfinite(a) & np.isfinite(b)
    if not np.array_equal(np.isnan(a), np.isnan(b)):
        return False
    nf = ~fin & ~np.isnan(a)
    if not np.array_equal(a[nf], b[nf]):
        return False
    return bool(np.all(np.abs(a[fin] - b[fin]) <= ATOL + RTOL * np.maximum(np.abs(a[fin]), np.abs(b[fin]))))


def mkdata(shape, dtype, salt=0):
    n = int(np.prod(shape)) if shape else 1
    if dtype == "real":
        return (np.arange(n, dtype=float) * 1.25 + 0.5 + salt).reshape(shape)
    return ((np.arange(n) + salt) % dtype).astype(np.int64).reshape(shape)


def out_domain(dtype, event_shape):
    return Array[dtype, tuple(event_shape)]


class Declined(Exception):
    pass


# ---- 1. to_funsor / to_data round trip ---------------------------------------------------------
def check_roundtrip(case):
    shape = tuple(case["shape"])
    er = case["event_rank"]
    named = case["named"]  # one bool per batch dim, left to right
    b = len(shape) - er
    batch, event = shape[:b], shape[b:]
    dtype = "real" if case["dtype"] == "real" else max(2, int(np.prod(shape)) if shape else 1)
    x = mkdata(shape, dtype)
    if case.get("generic") and shape == ():
        x = x[()]  # numpy scalar (np.generic)
    dim_to_name = {d - b: NAMES[d] for d in range(b) if named[d]}
    output = None if case.get("output") == "none" else out_domain(dtype, event)
    viol = []
    unnamed_nonunit = [d for d in range(b) if not named[d] and batch[d] != 1]
    try:
        f = to_funsor(x, output, dim_to_name if dim_to_name else None)
    except Exception as e:
        if unnamed_nonunit or (b and not dim_to_name):
            raise Declined("un-named batch dims rejected: %s" % type(e).__name__)
        return [("to_funsor_total_on_precondition", "raised %s: %s" % (type(e).__name__, e), ("to_funsor", "raise"))]
    if unnamed_nonunit:
        # an un-named batch dimension of size > 1 must be rejected, not silently folded into a neighbour
        return [("to_funsor_rejects_unnamed", "accepted shape %s named %s -> %s" % (shape, named, f.inputs), ("to_funsor", "unnamed"))]
    exp_inputs = [(NAMES[d], batch[d]) for d in range(b) if named[d] and batch[d] != 1]
    got_inputs = [(k, v.size) for k, v in f.inputs.items()]
    if not isinstance(f, (Tensor, Number) if case.get("generic") else Tensor) or got_inputs != exp_inputs or not all(isinstance(v.dtype, int) for v in f.inputs.values()):
        viol.append(("to_funsor_inputs", "inputs %s expected %s" % (got_inputs, exp_inputs), ("to_funsor", "inputs")))
        return viol
    if f.output is not out_domain(dtype, event):
        viol.append(("to_funsor_output", "output %s expected %s" % (f.output, out_domain(dtype, event)), ("to_funsor", "output")))
        return viol
    xa = np.asarray(x)
    pos = {NAMES[d]: d for d in range(b)}
    for point in itertools.product(*[range(s) for _, s in exp_inputs]):
        idx = [0] * b
        for (n, _), p in zip(exp_inputs, point):
            idx[pos[n]] = p
        if not np.array_equal(np.asarray(f.data)[tuple(point)], xa[tuple(idx)]):
            viol.append(("to_funsor_value_at_point", "point %s of %s" % (dict(zip([n for n, _ in exp_inputs], point)), case), ("to_funsor", "value")))
            return viol
    # ---- back
    name_to_dim = {n: d for d, n in dim_to_name.items()}
    try:
        y = to_data(f, name_to_dim if name_to_dim else None)
    except Exception as e:
        return [("to_data_total_on_precondition", "raised %s: %s" % (type(e).__name__, e), ("to_data", "raise"))]
    y = np.asarray(y)
    k = xa.ndim - y.ndim
    ok = k >= 0 and all(s == 1 for s in xa.shape[:k]) and y.shape == xa.shape[k:] and np.array_equal(y, xa.reshape(y.shape))
    if ok and exp_inputs:
        ok = y.ndim - er == -min(name_to_dim[n] for n, _ in exp_inputs)
    if not ok:
        viol.append(("roundtrip_identity", "x.shape %s -> y.shape %s (case %s)" % (xa.shape, y.shape, case), ("roundtrip",)))
    return viol


# ---- 2. to_data with an arbitrary injective name_to_dim ----------------------------------------
def check_to_data(case):
    sizes = case["sizes"]
    event = tuple(case["event"])
    dims = case["dims"]
    dtype = "real" if case["dtype"] == "real" else 7
    names = NAMES[: len(sizes)]
    data = mkdata(tuple(sizes) + event, dtype)
    f = Tensor(data, OrderedDict((n, Bint[s]) for n, s in zip(names, sizes)), dtype)
    n2d = dict(zip(names, dims))
    try:
        y = np.asarray(to_data(f, n2d))
    except Exception as e:
        return [("to_data_total_on_precondition", "raised %s: %s" % (type(e).__name__, e), ("to_data", "raise"))]
    nb = -min(dims)
    exp_batch = [1] * nb
    for n, s in zip(names, sizes):
        exp_batch[n2d[n]] = s
    if y.shape != tuple(exp_batch) + event:
        return [("to_data_shape", "shape %s expected %s" % (y.shape, tuple(exp_batch) + event), ("to_data", "shape"))]
    for point in itertools.product(*[range(s) for s in sizes]):
        idx = [0] * nb
        for n, p in zip(names, point):
            idx[n2d[n]] = p
        if not np.array_equal(y[tuple(idx)], data[tuple(point)]):
            return [("to_data_value_at_point", "point %s" % (dict(zip(names, point)),), ("to_data", "value"))]
    return []


# ---- 3. align -----------------------------------------------------------------------------------
def expected_order(old, names):
    return list(names) + [n for n in old if n not in names]


def eval_at(f, point):
    """Value of a funsor at a full assignment, through funsor's own substitution (eager)."""
    with eager:
        r = f(**point)
    if r.inputs:
        raise RuntimeError("not closed after substitution: %s" % (r.inputs,))
    if isinstance(r, (Tensor, Number)):
        return np.asarray(r.data)
    from funsor.interpreter import reinterpret

    with eager:
        r = reinterpret(r)
    if isinstance(r, (Tensor, Number)):
        return np.asarray(r.data)
    raise RuntimeError("could not evaluate %s" % type(r).__name__)


def check_align_tensor(case):
    sizes = case["sizes"]
    event = tuple(case["event"])
    dtype = "real" if case["dtype"] == "real" else 11
    names = NAMES[: len(sizes)]
    data = mkdata(tuple(sizes) + event, dtype)
    f = Tensor(data, OrderedDict((n, Bint[s]) for n, s in zip(names, sizes)), dtype)
    req = tuple(names[i] for i in case["perm"])
    g = f.align(req)
    want = expected_order(names, req)
    if list(g.inputs) != want:
        return [("align_inputs_order", "inputs %s requested %s" % (list(g.inputs), req), ("align", "Tensor", "order"))]
    if not isinstance(g, Tensor) or g.output is not f.output or any(g.inputs[n] is not f.inputs[n] for n in names):
        return [("align_types", "type/domains changed: %s" % (g,), ("align", "Tensor", "types"))]
    for point in itertools.product(*[range(s) for s in sizes]):
        p = dict(zip(names, point))
        if not np.array_equal(np.asarray(g.data)[tuple(p[n] for n in g.inputs)], data[tuple(point)]):
            return [("align_value_at_point", "point %s perm %s sizes %s" % (p, req, sizes), ("align", "Tensor", "value"))]
    return []


def _tensor_on(names_sizes, salt, dtype="real"):
    shape = tuple(s for _, s in names_sizes)
    return Tensor(mkdata(shape, dtype, salt), OrderedDict((n, Bint[s]) for n, s in names_sizes), dtype)


def check_align_contraction(case):
    """Lazy sum / sum-product of two tensors over overlapping inputs."""
    sizes = dict(zip(NAMES, case["sizes"]))  # free inputs
    s1 = [NAMES[i] for i in case["in1"]]
    s2 = [NAMES[i] for i in case["in2"]]
    variant = case["variant"]
    interp = dict(eager=eager, lazy=lazy, normalize=normalize)[case["interp"]]
    ksz = 2
    if variant == "sumprod":
        t1 = _tensor_on([(n, sizes[n]) for n in s1] + [("k", ksz)], 0.0)
        t2 = _tensor_on([("k", ksz)] + [(n, sizes[n]) for n in s2], 3.0)
        with normalize:
            c = (t1 * t2).reduce(ops.add, "k")
    else:
        t1 = _tensor_on([(n, sizes[n]) for n in s1], 0.0)
        t2 = _tensor_on([(n, sizes[n]) for n in s2], 3.0)
        with normalize:
            c = t1 + t2
    if not isinstance(c, Contraction):
        raise Declined("not a Contraction: %s" % type(c).__name__)
    free = list(c.inputs)
    req = tuple(free[i] for i in case["perm"])
    try:
        with interp:
            g = c.align(req)
    except (AssertionError, NotImplementedError) as e:
        raise Declined("align raised %s" % type(e).__name__)
    want = expected_order(free, req)
    if list(g.inputs) != want:
        return [("align_inputs_order", "inputs %s requested %s (was %s)" % (list(g.inputs), req, free), ("align", "Contraction", "order", case["interp"]))]
    for n in free:
        if g.inputs[n] is not c.inputs[n]:
            return [("align_types", "domain of %s changed" % n, ("align", "Contraction", "types"))]
    for point in itertools.product(*[range(sizes[n]) for n in free]):
        p = dict(zip(free, point))
        a = t1.data[tuple(p[n] for n in s1)]
        bb = t2.data[(slice(None),) * (1 if variant == "sumprod" else 0) + tuple(p[n] for n in s2)]
        val = float(np.sum(a * bb)) if variant == "sumprod" else float(a + bb)
        got = eval_at(g, p)
        if not close(got, val):
            return [("align_value_at_point", "point %s: got %s want %s (%s)" % (p, got, val, case), ("align", "Contraction", "value", case["interp"]))]
    return []


def _gauss_from_pattern(pattern, salt=0):
    """pattern: list of 'B2','B3','R','R2' -> (Gaussian, names, white_vec, prec_sqrt)."""
    names = NAMES[: len(pattern)]
    doms = {"B2": Bint[2], "B3": Bint[3], "R": Real, "R2": Reals[2]}
    inputs = OrderedDict((n, doms[p]) for n, p in zip(names, pattern))
    batch = tuple(d.size for d in inputs.values() if d.dtype != "real")
    dim = sum(d.num_elements for d in inputs.values() if d.dtype == "real")
    rs = np.random.RandomState(1234 + salt)
    prec_sqrt = rs.randn(*(batch + (dim, dim))) * 0.5 + np.eye(dim)
    white_vec = rs.randn(*(batch + (dim,)))
    g = Gaussian(white_vec, prec_sqrt, inputs)
    return g, names, inputs, white_vec, prec_sqrt


def check_align_gaussian(case):
    pattern = case["pattern"]
    g, names, inputs, wv, ps = _gauss_from_pattern(pattern)
    if not isinstance(g, Gaussian):
        raise Declined("constructor returned %s" % type(g).__name__)
    req = tuple(names[i] for i in case["perm"])
    h = g.align(req)
    want = expected_order(names, req)
    if list(h.inputs) != want:
        return [("align_inputs_order", "inputs %s requested %s" % (list(h.inputs), req), ("align", "Gaussian", "order"))]
    if any(h.inputs[n] is not inputs[n] for n in names) or h.output is not Real:
        return [("align_types", "domains changed", ("align", "Gaussian", "types"))]
    ints = [n for n in names if inputs[n].dtype != "real"]
    reals = [n for n in names if inputs[n].dtype == "real"]
    rs = np.random.RandomState(7)
    rpoints = [{n: rs.randn(*inputs[n].shape) for n in reals} for _ in range(case.get("nreal", 2))]
    for ipoint in itertools.product(*[range(inputs[n].size) for n in ints]):
        for rp in rpoints:
            x = np.concatenate([np.asarray(rp[n]).reshape(-1) for n in reals])
            v = x @ ps[ipoint] - wv[ipoint]
            val = -0.5 * float(v @ v)
            p = dict(zip(ints, ipoint))
            p.update({n: Tensor(np.asarray(rp[n])) for n in reals})
            got = eval_at(h, p)
            if not close(got, val):
                return [("align_value_at_point", "ints %s: got %s want %s (%s)" % (dict(zip(ints, ipoint)), got, val, case), ("align", "Gaussian", "value"))]
    return []


def check_align_delta(case):
    """Delta over 1..3 sample names; points are Tensors with an optional batch input 'i'."""
    nterms = case["nterms"]
    batched = case["batched"]  # list of bool per term
    shapes = case["shapes"]  # 0 -> Real, 2 -> Reals[2]
    names = ["x", "z", "y"][:nterms]
    terms = []
    raw = {}
    for t, n in enumerate(names):
        ev = (shapes[t],) if shapes[t] else ()
        bs = (2,) if batched[t] else ()
        pt = mkdata(bs + ev, "real", salt=10.0 * t)
        ld = mkdata(bs, "real", salt=0.125 + t)
        bi = OrderedDict(i=Bint[2]) if batched[t] else OrderedDict()
        terms.append((n, (Tensor(pt, bi), Tensor(ld, bi))))
        raw[n] = (pt, ld, batched[t])
    d = Delta(tuple(terms))
    if not isinstance(d, Delta):
        raise Declined("constructor returned %s" % type(d).__name__)
    allin = list(d.inputs)
    pool = allin if case["over"] == "inputs" else names
    req = tuple(pool[i] for i in case["perm"])
    try:
        h = d.align(req)
    except AssertionError as e:
        raise Declined("Delta.align asserts names within fresh: %s" % (req,))
    got_order = [n for n in h.inputs if n in req]
    if got_order != list(req) or set(h.inputs) != set(allin):
        return [("align_inputs_order", "inputs %s requested %s" % (list(h.inputs), req), ("align", "Delta", "order"))]
    if any(h.inputs[n] is not d.inputs[n] for n in allin):
        return [("align_types", "domains changed", ("align", "Delta", "types"))]
    has_i = "i" in allin
    for i in range(2) if has_i else [None]:
        for which in itertools.product([0, 1], repeat=nterms):  # 0: at the point, 1: elsewhere
            val = 0.0
            p = {}
            if has_i:
                p["i"] = i
            for t, n in enumerate(names):
                pt, ld, bt = raw[n]
                pv = pt[i] if bt else pt
                lv = ld[i] if bt else ld
                v = pv + (0.0 if which[t] == 0 else 1.0)
                p[n] = Tensor(np.asarray(v))
                val = val + (float(lv) if which[t] == 0 else -np.inf)
            got = eval_at(h, p)
            if not close(got, val):
                return [("align_value_at_point", "i=%s which=%s got %s want %s (%s)" % (i, which, got, val, case), ("align", "Delta", "value"))]
    return []


# ---- 4. materialize / new_arange --------------------------------------------------------------------
def _mat_recipes():
    """(label, builder() -> funsor, den(point) -> value, int input names+sizes)."""
    R = []
    for n in (1, 2, 3, 4):
        R.append(("Variable[%d]" % n, lambda n=n: Variable("i", Bint[n]), lambda p: p["i"], [("i", n)]))
    for start, stop, step, dt in [(0, 3, 1, 3), (1, 5, 1, 6), (0, 7, 2, 7), (1, 8, 3, 9), (2, 3, 1, 4), (0, 6, 5, 6), (3, 10, 2, 12)]:
        size = len(range(start, stop, step))
        R.append(
            (
                "Slice(%d,%d,%d,%d)" % (start, stop, step, dt),
                lambda a=(start, stop, step, dt): Slice("s", *a),
                lambda p, a=(start, step): a[0] + p["s"] * a[1],
                [("s", size)],
            )
        )

    def b1():
        with lazy:
            return Variable("i", Bint[3]) + Variable("j", Bint[2])

    R.append(("lazy i+j", b1, lambda p: p["i"] + p["j"], [("i", 3), ("j", 2)]))

    def b2():
        with lazy:
            return Variable("i", Bint[3]) * Slice("s", 1, 7, 2, 7)

    R.append(("lazy i*Slice", b2, lambda p: p["i"] * (1 + 2 * p["s"]), [("i", 3), ("s", 3)]))

    t = mkdata((5, 2), "real")

    def b3():
        with reflect:
            return Tensor(t, OrderedDict(k=Bint[5], j=Bint[2]))(k=Slice("s", 1, 5, 2, 5))

    R.append(("lazy Tensor(k=Slice)", b3, lambda p: t[1 + 2 * p["s"], p["j"]], [("s", 2), ("j", 2)]))

    def b4():
        with reflect:
            return Tensor(t4, OrderedDict(k=Bint[4], j=Bint[2]))(k=Variable("i", Bint[3]) + Variable("j", Bint[2]))

    t4 = mkdata((4, 2), "real", 0.25)
    R.append(("lazy Tensor(k=i+j) diagonal", b4, lambda p: t4[p["i"] + p["j"], p["j"]], [("j", 2), ("i", 3)]))

    def b5():
        with lazy:
            return Variable("i", Bint[3])(i=Variable("m", Bint[3]))

    R.append(("renamed variable", b5, lambda p: p["m"], [("m", 3)]))

    def b6():
        with lazy:
            return -Slice("s", 0, 4, 1, 4) + Number(3, 4)

    R.append(("lazy neg slice + const", b6, lambda p: -p["s"] + 3, [("s", 4)]))
    return R


MAT = _mat_recipes()


def check_materialize(case):
    label, build, den, ins = MAT[case["recipe"]]
    x = build()
    proto = Tensor(np.zeros((2,)) if case.get("proto") == "vec" else np.zeros(()))
    with eager:
        m = proto.materialize(x)
    viol = []
    if not isinstance(m, (Tensor, Number)):
        raise Declined("materialize stayed lazy: %s" % type(m).__name__)
    if set(m.inputs) != {n for n, _ in ins} or any(m.inputs[n] is not Bint[s] for n, s in ins):
        return [("materialize_inputs", "%s: inputs %s expected %s" % (label, dict(m.inputs), ins), ("materialize", "inputs"))]
    if m.output is not x.output:
        return [("materialize_output", "%s: output %s vs %s" % (label, m.output, x.output), ("materialize", "output"))]
    for point in itertools.product(*[range(s) for _, s in ins]):
        p = dict(zip([n for n, _ in ins], point))
        got = np.asarray(m.data)[tuple(p[n] for n in m.inputs)] if isinstance(m, Tensor) else m.data
        if not close(got, den(p)):
            viol.append(("materialize_value_at_point", "%s at %s: got %s want %s" % (label, p, got, den(p)), ("materialize", "value", label.split("(")[0])))
            break
    return viol


def check_new_arange(case):
    args = case["args"]
    proto = Tensor(np.zeros((2, 3)), OrderedDict(q=Bint[2]))
    try:
        a = proto.new_arange("n", *args)
    except (ValueError, AssertionError) as e:
        raise Declined("new_arange rejected %s" % (args,))
    start, step = 0, 1
    if len(args) == 1:
        stop = args[0]
        dt = stop
    elif len(args) == 2:
        start, stop = args
        dt = stop
    elif len(args) == 3:
        start, stop, step = args
        dt = stop
    else:
        start, stop, step, dt = args
    want = [v for v in range(start, stop, step) if v < dt]
    ok = (
        isinstance(a, Tensor)
        and list(a.inputs) == ["n"]
        and a.inputs["n"] is Bint[len(want)]
        and a.output is Bint[dt]
        and np.asarray(a.data).dtype.kind in "iu"
        and np.array_equal(np.asarray(a.data), np.asarray(want, dtype=np.int64))
    )
    if not ok:
        return [("new_arange_is_range", "args %s -> %s expected %s" % (args, a, want), ("new_arange",))]
    return []


KINDS = dict(
    roundtrip=check_roundtrip,
    to_data=check_to_data,
    align_tensor=check_align_tensor,
    align_contraction=check_align_contraction,
    align_gaussian=check_align_gaussian,
    align_delta=check_align_delta,
    materialize=check_materialize,
    new_arange=check_new_arange,
)


def check_case(case):
    """list of (contract, detail, tags); Declined is reported as contract 'DECLINED'."""
    try:
        return KINDS[case["kind"]](case)
    except Declined as d:
        return [("DECLINED", str(d), ())]


# ---- enumeration --------------------------------------------------------------------------------
def cases(tier, seed):
    thorough = tier != "quick"
    rmax, smax = (5, 4) if thorough else (4, 3)
    out = []
    # 1 round trip
    for rank in range(0, rmax + 1):
        for shape in itertools.product(range(1, smax + 1), repeat=rank):
            for er in range(0, min(2, rank) + 1):
                b = rank - er
                for named in itertools.product([False, True], repeat=b):
                    for dtype in ("real", "bint"):
                        out.append(dict(kind="roundtrip", shape=list(shape), event_rank=er, named=list(named), dtype=dtype, output="given"))
                    if b and named[0]:
                        out.append(dict(kind="roundtrip", shape=list(shape), event_rank=er, named=list(named), dtype="real", output="none"))
    out.append(dict(kind="roundtrip", shape=[], event_rank=0, named=[], dtype="real", output="given", generic=True))
    out.append(dict(kind="roundtrip", shape=[], event_rank=0, named=[], dtype="bint", output="given", generic=True))
    # 2 general to_data
    nmax = 4 if thorough else 3
    for n in range(1, nmax + 1):
        for sizes in itertools.product(range(1, 4), repeat=n):
            for event in ((), (2,)):
                for dims in itertools.permutations(range(-1, -(n + 2), -1), n):
                    for dtype in ("real", "bint") if n <= 2 else ("real",):
                        out.append(dict(kind="to_data", sizes=list(sizes), event=list(event), dims=list(dims), dtype=dtype))
    # 3 align Tensor: every permutation of every subset (prefix semantics), all sizes in 1..3
    for n in range(1, 5):
        for sizes in itertools.product(range(1, 4), repeat=n):
            for event in ((), (2,)):
                for k in range(1, n + 1):
                    if k < n and not thorough and n == 4:
                        continue
                    for perm in itertools.permutations(range(n), k):
                        out.append(dict(kind="align_tensor", sizes=list(sizes), event=list(event), perm=list(perm), dtype="real" if event else "bint" if sum(sizes) % 2 else "real"))
    # 3b align Contraction: two operands over subsets of <=4 free inputs
    rs = np.random.RandomState(seed)
    for nfree in range(1, 5):
        subsets = [s for r in range(0, nfree + 1) for s in itertools.combinations(range(nfree), r)]
        pairs = [(a, b) for a in subsets for b in subsets if set(a) | set(b) == set(range(nfree)) and a and b]
        if nfree == 4 and not thorough:
            pairs = [pairs[i] for i in rs.choice(len(pairs), 12, replace=False)]
        for a, b in pairs:
            for variant in ("sum", "sumprod"):
                for interp in ("eager", "lazy", "normalize"):
                    if nfree >= 3 and interp == "normalize" and not thorough:
                        continue
                    sizes = [2, 3, 2, 3][:nfree] if (len(a) + len(b)) % 2 else [3, 2, 2, 2][:nfree]
                    for perm in itertools.permutations(range(nfree)):
                        out.append(dict(kind="align_contraction", sizes=sizes, in1=list(a), in2=list(b), variant=variant, interp=interp, perm=list(perm)))
    # 3c align Gaussian
    for n in range(1, 5):
        pats = [p for p in itertools.product(["B2", "B3", "R", "R2"], repeat=n) if any(x.startswith("R") for x in p)]
        if n == 4 and not thorough:
            pats = [pats[i] for i in rs.choice(len(pats), 40, replace=False)]
        for p in pats:
            for k in range(1, n + 1):
                if k < n and (n == 4 or not thorough):
                    continue
                for perm in itertools.permutations(range(n), k):
                    out.append(dict(kind="align_gaussian", pattern=list(p), perm=list(perm), nreal=2 if n < 4 else 1))
    # 3d align Delta
    for nt in range(1, 4):
        for batched in itertools.product([False, True], repeat=nt):
            for shapes in itertools.product([0, 2], repeat=nt):
                for perm in itertools.permutations(range(nt)):
                    out.append(dict(kind="align_delta", nterms=nt, batched=list(batched), shapes=list(shapes), over="fresh", perm=list(perm)))
                nin = nt + (1 if any(batched) else 0)
                if nin <= 4 and any(batched):
                    for perm in itertools.permutations(range(nin)):
                        out.append(dict(kind="align_delta", nterms=nt, batched=list(batched), shapes=list(shapes), over="inputs", perm=list(perm)))
    # 4 materialize / new_arange
    for r in range(len(MAT)):
        for proto in ("scalar", "vec"):
            out.append(dict(kind="materialize", recipe=r, proto=proto))
    rng = range(0, 6) if thorough else range(0, 5)
    for stop in rng:
        out.append(dict(kind="new_arange", args=[stop]))
        for start in rng:
            out.append(dict(kind="new_arange", args=[start, stop]))
            for step in (1, 2, 3):
                out.append(dict(kind="new_arange", args=[start, stop, step]))
                for dt in (stop, stop + 2, max(stop - 1, 1)):
                    out.append(dict(kind="new_arange", args=[start, stop, step, dt]))
    return out


def nontrivial(case):
    k = case["kind"]
    if k == "roundtrip":
        return len(case["shape"]) - case["event_rank"] >= 1 and any(case["named"])
    if k in ("to_data", "align_tensor"):
        return len(case["sizes"]) >= 2
    if k in ("align_contraction", "align_gaussian", "align_delta"):
        return len(case["perm"]) >= 2
    return True


def work(chunk):
    from common import RtcResult

    res = RtcResult("C19", "drv_misc")
    for case in chunk:
        try:
            viol = check_case(case)
        except Exception as e:
            import traceback

            viol = [("harness_or_funsor_exception", traceback.format_exc()[-1200:], ("exception", case["kind"], type(e).__name__))]
        if viol and viol[0][0] == "DECLINED":
            res.declined += 1
            continue
        contract = {"roundtrip": "roundtrip_identity", "to_data": "to_data_value_at_point", "materialize": "materialize_value_at_point", "new_arange": "new_arange_is_range"}.get(
            case["kind"], "align_value_at_point[%s]" % case["kind"][6:]
        )
        res.evaluated(contract, sorted(case.items()), nontrivial(case), sample=case if case["kind"] != "new_arange" and nontrivial(case) else None)
        for c, d, tags in viol:
            import misc_util

            res.fail(c, case, d, misc_util.module_replay(sys.modules[__name__], case, contract=c), tags)
    return res


def run(res, tier, seed, jobs):
    import misc_util

    cs = cases(tier, seed)
    chunks = [cs[i :: jobs * 4] for i in range(jobs * 4)]
    for r in misc_util.pmap(work, [c for c in chunks if c], jobs):
        res.merge(r)
    from collections import Counter

    thorough = tier != "quick"
    res.bounds.update(
        cases_by_kind=dict(Counter(c["kind"] for c in cs)),
        roundtrip="ranks 0..%d, sizes 1..%d, event ranks 0..2, every subset of batch dims named, real + bounded int; output given and inferred (leftmost batch dim named)"
        % ((5, 4) if thorough else (4, 3)),
        to_data="<=%d inputs, sizes 1..3, event () and (2,), every injective name_to_dim into the n+1 rightmost batch dims" % (4 if thorough else 3),
        align_tensor="<=4 inputs, all sizes in 1..3, every permutation of all inputs" + (" and of every subset (prefix semantics)" if thorough else " (and of subsets for <=3 inputs)"),
        align_contraction="sum / sum-product of 2 tensors over every pair of input subsets covering <=4 free inputs (sampled for 4 in quick), all permutations, under eager/lazy/normalize",
        align_gaussian="input type patterns over {Bint[2],Bint[3],Real,Reals[2]} of length <=4 (40 sampled of length 4 in quick), all permutations",
        align_delta="1..3 terms, each point batched or not, Real / Reals[2]; permutations of the sample names and of all inputs",
        materialize="%d lazy recipes (Variable, Slice, lazy arithmetic, lazy Tensor indexing) x 2 prototypes" % len(MAT),
        nontrivial_rule="round trip: at least one named batch dim; align/to_data: >= 2 inputs permuted; materialize/new_arange: always",
    )
    res.exhaustive = thorough
    if not thorough:
        res.notes.append("quick: 4-input Contraction pairs and 4-input Gaussian patterns are sampled (seeded); everything else enumerated")
    res.notes.append("an assertion/ValueError from align or to_funsor on inputs outside the API precondition is counted as declined")
    return res
