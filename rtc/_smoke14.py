import sys, time, collections
sys.path.insert(0, "/verif/rtc")
import numpy as np
import gauss_core as C, gauss_gen as G
rs = np.random.RandomState(0)
stat=collections.Counter(); fails=collections.defaultdict(list)
t0=time.time(); n=0
def note(label, spec):
    global n
    n+=1
    spec["pseed"]=n; spec["npseed"]=n
    for r in C.run_case(spec):
        stat[(spec["kind"], r["contract"], r["status"])]+=1
        if r["status"]!="ok":
            key=(r["status"], r["contract"], tuple(t for t in r["tags"] if t.startswith(("raises","value","inputs","split","eval","support","mass","determinism","output","point:","f:","via","log_density:t","var:b","affine","mean","cov","sample_inputs","row"))), r["detail"][:50])
            fails[key].append((label, r["detail"][:500]))
which=sys.argv[1]
if "d" in which:
    for label, frag in G.delta_specs(rs):
        note(label, dict(frag, kind="delta_eval"))
        for fl, f, vias in G.delta_f_specs(rs, frag):
            for via in vias:
                note(label+":"+fl+":"+via, dict(frag, kind="delta_reduce", f=f, via=via))
if "t" in which:
    for label, frag in G.tensor_sample_specs(rs, [1,2,4]):
        note(label, dict(frag, kind="tensor_sample"))
        f={"t":"tensor","tensor":G.tensor_spec(rs, [tuple(t) for t in frag["tensor"]["inputs"]])}
        note(label+":mc", dict(frag, kind="mc_tensor", f=f))
if "g" in which:
    sigs = list(G.signatures([(), (2,), (2,2)], [1,2,3], max_reals=3, max_ints=2, max_dim=6))
    for sig in sigs[::41]:
        for label, frag in G.gaussian_sample_specs(rs, sig):
            note(label, dict(frag, kind="gaussian_sample"))
print(n, time.time()-t0)
for k,v in sorted(stat.items()): print(k,v)
for k,v in sorted(fails.items(), key=lambda kv: -len(kv[1])):
    print(len(v), k); print("    ", v[0])
