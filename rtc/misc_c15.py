"""C15: op tables are truthful; ops agree across scalar / 0-d / array operands; stabilised ops return
exact limits (bounded run-time contract).

Oracles: python/numpy arithmetic written out here per op (``REF``), and ``decimal`` (50 digits) for
log-sum-exp style limits.  Nothing of funsor is used on the oracle side.
"""
import decimal
import itertools
import math
import sys
import warnings

sys.path.insert(0, __import__("os").environ.get("VERIF_REPO", "/repo"))
import numpy as np  # noqa: E402

import funsor  # noqa: E402
from funsor import ops  # noqa: E402
from funsor.einsum import numpy_log, numpy_map  # noqa: E402

funsor.set_backend("numpy")
warnings.simplefilter("ignore")
RTOL, ATOL = 1e-6, 1e-8
INF = math.inf
FMAX = float(np.finfo(np.float64).max)
TINY = float(np.finfo(np.float64).tiny)  # smallest normal
SUB = 5e-324  # smallest subnormal

MOD = [0.0, 1.0, -1.0, 0.5, -0.5, 2.0]  # exactly representable, products/sums exact
FULL = MOD + [INF, -INF, TINY, -TINY, SUB, FMAX, -FMAX]
BOOLS = [False, True]
INTS = [0, 1, 2, 3, -1, -2]
SHAPES = [(), (1,), (3,), (1, 2), (3, 2)]


def close(a, b):
    a = np.asarray(a)
    b = np.asarray(b)
    if a.shape != b.shape:
        try:
            a, b = np.broadcast_arrays(a, b)
        except ValueError:
            return False
    if a.dtype.kind == "b" and b.dtype.kind == "b":
        return bool(np.array_equal(a, b))
    a = a.astype(float)
    b = b.astype(float)
    fin = np.isfinite(a) & np.isfinite(b)
    if not np.array_equal(np.isnan(a), np.isnan(b)):
        return False
    nf = ~fin & ~np.isnan(a)
    if not np.array_equal(a[nf], b[nf]):
        return False
    return bool(np.all(np.abs(a[fin] - b[fin]) <= ATOL + RTOL * np.maximum(np.abs(a[fin]), np.abs(b[fin]))))


def has_nan(x):
    try:
        return bool(np.isnan(np.asarray(x, dtype=float)).any())
    except (TypeError, ValueError):
        return False


def name(v):
    if isinstance(v, (bool, np.bool_)):
        return str(bool(v))
    if isinstance(v, float):
        return {INF: "+inf", -INF: "-inf", FMAX: "+max", -FMAX: "-max", TINY: "+tiny", -TINY: "-tiny", SUB: "+subnormal"}.get(v, repr(v))
    return repr(v)


def fill(values, shape, offset=0):
    """Array of ``shape`` cycling through ``values`` starting at ``offset``."""
    n = int(np.prod(shape)) if shape else 1
    vals = [values[(offset + i) % len(values)] for i in range(n)]
    return np.array(vals).reshape(shape)


def reps(v):
    """Representations of one value: python scalar, numpy scalar, 0-d array."""
    a = np.array(v)
    return [("py", v), ("npscalar", a[()]), ("0d", a)]


class V:
    def __init__(self):
        self.viol = []
        self.evals = []  # (contract, key, nontrivial)
        self.declined = 0

    def ev(self, contract, key, nontrivial=True):
        self.evals.append((contract, key, nontrivial))

    def fail(self, contract, detail, tags):
        self.viol.append((contract, detail, tuple(tags)))


OPN = {}


def opname(op):
    return getattr(op, "__name__", str(op))


def call(op, *args):
    with np.errstate(all="ignore"):
        return op(*args)


# ---- 1. table entries --------------------------------------------------------------------------------
def carrier(op):
    n = opname(op)
    if n in ("and_", "or_", "xor"):
        return BOOLS
    if n == "logaddexp" or n == "sample":
        return [v for v in FULL if v != INF]
    return FULL


def check_units(v):
    for op, u in sorted(ops.UNITS.items(), key=lambda kv: opname(kv[0])):
        n = opname(op)
        if n == "sample":
            continue
        xs = carrier(op)
        for x in xs:
            for rn, xr in reps(x):
                for ur_n, ur in reps(u):
                    if rn == "py" and ur_n != "py" or rn != "py" and ur_n == "npscalar":
                        pass
                    for side in ("left", "right"):
                        try:
                            r = call(op, ur, xr) if side == "left" else call(op, xr, ur)
                        except Exception as e:
                            v.declined += 1
                            continue
                        v.ev("unit_is_neutral", (n, name(x), rn, ur_n, side), nontrivial=(rn == "py" and ur_n == "py") or rn == "0d")
                        if not close(r, x) or has_nan(r):
                            v.fail("unit_is_neutral", "UNITS[%s]=%s but %s(%s) = %r for x=%s (%s, unit as %s)" % (n, name(u), n, "u,x" if side == "left" else "x,u", r, name(x), rn, ur_n), ["UNITS", n, "x=" + name(x), rn])
        # element-wise on arrays
        for shape in SHAPES[1:]:
            arr = fill(xs, shape)
            for side in ("left", "right"):
                try:
                    r = call(op, u, arr) if side == "left" else call(op, arr, u)
                except Exception:
                    v.declined += 1
                    continue
                v.ev("unit_is_neutral", (n, "array", shape, side))
                if not close(r, arr):
                    v.fail("unit_is_neutral", "UNITS[%s]=%s not neutral element-wise on %r: %r" % (n, name(u), arr.tolist(), np.asarray(r).tolist()), ["UNITS", n, "array"])


def dist_grid(s, p):
    sn, pn = opname(s), opname(p)
    if (sn, pn) == ("add", "mul"):
        g = MOD + [TINY]
        return g, g, g
    if pn == "mul":  # max/min with mul: non-negative finite data only (0*inf is an undefined form)
        g = [x for x in FULL if 0 <= x < INF]
        return g, g, g
    if (sn, pn) == ("or_", "and_"):
        return BOOLS, BOOLS, BOOLS
    if sn == "max":
        g = [x for x in FULL if x != INF]
        return g, g, g
    if sn == "min":
        g = [x for x in FULL if x != -INF]
        return g, g, g
    if sn == "logaddexp":
        g = MOD + [-INF, TINY, -TINY, 3.0, -700.0, 700.0]
        return g, g, g
    return MOD, MOD, MOD  # an entry this driver does not know: moderate reals


def check_distributive(v):
    for s, p in sorted(ops.DISTRIBUTIVE_OPS, key=lambda sp: (opname(sp[0]), opname(sp[1]))):
        sn, pn = opname(s), opname(p)
        if "sample" in (sn, pn):
            continue
        A, B, C = dist_grid(s, p)
        triples = list(itertools.product(A, B, C))
        for rep in ("py", "0d"):
            for a, b, c in triples:
                if rep == "0d":
                    a_, b_, c_ = np.array(a), np.array(b), np.array(c)
                else:
                    a_, b_, c_ = a, b, c
                for side in ("right", "left"):
                    try:
                        if side == "right":
                            lhs = call(p, call(s, a_, b_), c_)
                            rhs = call(s, call(p, a_, c_), call(p, b_, c_))
                        else:
                            lhs = call(p, c_, call(s, a_, b_))
                            rhs = call(s, call(p, c_, a_), call(p, c_, b_))
                    except Exception:
                        v.declined += 1
                        continue
                    if has_nan(lhs) and has_nan(rhs):
                        continue  # undefined form (inf*0, inf-inf): outside the carrier
                    if not (np.all(np.isfinite(np.asarray(lhs, dtype=float))) or sn != "add"):
                        continue
                    v.ev("distributes", (sn, pn, name(a), name(b), name(c), rep, side), nontrivial=True)
                    if not close(lhs, rhs):
                        v.fail(
                            "distributes",
                            "(%s,%s): a=%s b=%s c=%s (%s, %s): (a%sb)%sc=%r but (a%sc)%s(b%sc)=%r" % (sn, pn, name(a), name(b), name(c), rep, side, sn, pn, lhs, pn, sn, pn, rhs),
                            ["DISTRIBUTIVE_OPS", sn, pn, rep],
                        )
        # element-wise arrays, all triples packed into arrays of each shape
        for shape in SHAPES[1:]:
            n = int(np.prod(shape))
            for off in range(0, len(triples), n):
                chunk = [triples[(off + i) % len(triples)] for i in range(n)]
                a_ = np.array([t[0] for t in chunk]).reshape(shape)
                b_ = np.array([t[1] for t in chunk]).reshape(shape)
                c_ = np.array([t[2] for t in chunk]).reshape(shape)
                try:
                    lhs = call(p, call(s, a_, b_), c_)
                    rhs = call(s, call(p, a_, c_), call(p, b_, c_))
                except Exception:
                    v.declined += 1
                    continue
                ok = ~(np.isnan(np.asarray(lhs, dtype=float)) & np.isnan(np.asarray(rhs, dtype=float)))
                if sn == "add":
                    ok &= np.isfinite(np.asarray(lhs, dtype=float))
                v.ev("distributes", (sn, pn, "array", shape, off), nontrivial=True)
                if not close(np.where(ok, lhs, 0), np.where(ok, rhs, 0)):
                    v.fail("distributes", "(%s,%s) element-wise shape %s: a=%s b=%s c=%s lhs=%s rhs=%s" % (sn, pn, shape, a_.tolist(), b_.tolist(), c_.tolist(), np.asarray(lhs).tolist(), np.asarray(rhs).tolist()), ["DISTRIBUTIVE_OPS", sn, pn, "array"])


def check_inverses(v):
    modnz = [x for x in MOD if x != 0] + [3.0, -4.0, 0.25]
    for table, tn in ((ops.BINARY_INVERSES, "BINARY_INVERSES"), (ops.SAFE_BINARY_INVERSES, "SAFE_BINARY_INVERSES")):
        for op, inv in sorted(table.items(), key=lambda kv: opname(kv[0])):
            n, ni = opname(op), opname(inv)
            if n == "xor":
                A, B = BOOLS, BOOLS
            elif n == "mul":
                A, B = MOD + [3.0, TINY], modnz
            else:
                A, B = MOD + [3.0, TINY], MOD + [3.0, -4.0]  # no cancellation: (a+b)-b is exact on this grid
            for a, b in itertools.product(A, B):
                for rep in ("py", "0d", "py-0d", "0d-py"):
                    a_ = np.array(a) if rep in ("0d", "0d-py") else a
                    b_ = np.array(b) if rep in ("0d", "py-0d") else b
                    try:
                        r = call(inv, call(op, a_, b_), b_)
                    except Exception:
                        v.declined += 1
                        continue
                    v.ev("binary_inverse_inverts", (tn, n, name(a), name(b), rep))
                    if not close(r, a) or has_nan(r):
                        v.fail("binary_inverse_inverts", "%s[%s]=%s: %s(%s(a,b),b)=%r for a=%s b=%s (%s)" % (tn, n, ni, ni, n, r, name(a), name(b), rep), [tn, n, ni, rep])
            pairs = list(itertools.product(A, B))
            for shape in SHAPES[1:]:
                k = int(np.prod(shape))
                for off in range(0, len(pairs), k):
                    ch = [pairs[(off + i) % len(pairs)] for i in range(k)]
                    a_ = np.array([t[0] for t in ch]).reshape(shape)
                    b_ = np.array([t[1] for t in ch]).reshape(shape)
                    try:
                        r = call(inv, call(op, a_, b_), b_)
                    except Exception:
                        v.declined += 1
                        continue
                    v.ev("binary_inverse_inverts", (tn, n, "array", shape, off))
                    if not close(r, a_):
                        v.fail("binary_inverse_inverts", "%s[%s]=%s element-wise: a=%s b=%s got %s" % (tn, n, ni, a_.tolist(), b_.tolist(), np.asarray(r).tolist()), [tn, n, ni, "array"])
    for op, inv in sorted(ops.UNARY_INVERSES.items(), key=lambda kv: opname(kv[0])):
        n, ni = opname(op), opname(inv)
        unit = ops.UNITS[op]
        A = (modnz + [1e-300, 1e300]) if n == "mul" else (MOD + [3.0, TINY, FMAX, -FMAX, 1e300])
        for a in A:
            for rn, ar in reps(a):
                try:
                    r = call(op, ar, call(inv, ar))
                    r2 = call(op, call(inv, ar), ar)
                except Exception:
                    v.declined += 1
                    continue
                v.ev("unary_inverse_inverts", (n, name(a), rn))
                if not (close(r, unit) and close(r2, unit)):
                    v.fail("unary_inverse_inverts", "UNARY_INVERSES[%s]=%s: %s(a,%s(a))=%r, unit %r, a=%s (%s)" % (n, ni, n, ni, r, unit, name(a), rn), ["UNARY_INVERSES", n, ni, rn])
        for shape in SHAPES[1:]:
            a_ = fill(A, shape)
            try:
                r = call(op, a_, call(inv, a_))
            except Exception:
                v.declined += 1
                continue
            v.ev("unary_inverse_inverts", (n, "array", shape))
            if not close(r, np.full(shape, unit)):
                v.fail("unary_inverse_inverts", "UNARY_INVERSES[%s]=%s element-wise on %s: %s" % (n, ni, a_.tolist(), np.asarray(r).tolist()), ["UNARY_INVERSES", n, ni, "array"])
    for op, pw in sorted(ops.PRODUCT_TO_POWER.items(), key=lambda kv: opname(kv[0])):
        n, pn = opname(op), opname(pw)
        A = MOD + [3.0, -3.0, 0.25, INF] + ([-INF] if n == "add" else [])
        for a in A:
            for k in range(1, 6):
                for rn, ar in reps(a):
                    acc = ar
                    try:
                        for _ in range(k - 1):
                            acc = call(op, acc, ar)
                        r = call(pw, ar, k)
                    except Exception:
                        v.declined += 1
                        continue
                    v.ev("power_is_repeated_product", (n, name(a), k, rn))
                    if not close(r, acc) or (has_nan(r) != has_nan(acc)):
                        v.fail("power_is_repeated_product", "PRODUCT_TO_POWER[%s]=%s: %d-fold %s of %s = %r but %s(a,%d) = %r (%s)" % (n, pn, k, n, name(a), acc, pn, k, r, rn), ["PRODUCT_TO_POWER", n, pn, rn])
        for shape in SHAPES[1:]:
            a_ = fill(A, shape)
            for k in range(1, 6):
                acc = a_
                for _ in range(k - 1):
                    acc = call(op, acc, a_)
                r = call(pw, a_, k)
                v.ev("power_is_repeated_product", (n, "array", shape, k))
                if not close(r, acc):
                    v.fail("power_is_repeated_product", "PRODUCT_TO_POWER[%s]=%s element-wise k=%d on %s" % (n, pn, k, a_.tolist()), ["PRODUCT_TO_POWER", n, pn, "array"])


def check_boolean_semiring(v):
    """(or_, and_, False, True) over {False, True}: all axioms, exhaustively, in every representation."""
    for rep in ("py", "npscalar", "0d"):
        conv = {"py": lambda b: b, "npscalar": lambda b: np.bool_(b), "0d": lambda b: np.array(b)}[rep]
        O, A, X = ops.or_, ops.and_, ops.xor
        zero, one = ops.UNITS[O], ops.UNITS[A]
        for a, b, c in itertools.product(BOOLS, repeat=3):
            a_, b_, c_ = conv(a), conv(b), conv(c)
            laws = {
                "or_assoc": (O(O(a_, b_), c_), (a or b) or c),
                "and_assoc": (A(A(a_, b_), c_), (a and b) and c),
                "or_comm": (O(a_, b_), b or a),
                "and_comm": (A(a_, b_), b and a),
                "or_unit": (O(conv(zero), a_), a),
                "and_unit": (A(conv(one), a_), a),
                "and_annihilates": (A(conv(zero), a_), False),
                "distrib_left": (A(a_, O(b_, c_)), (a and b) or (a and c)),
                "distrib_right": (A(O(a_, b_), c_), (a and c) or (b and c)),
                "xor_table": (X(a_, b_), a != b),
                "xor_unit": (X(conv(ops.UNITS[X]), a_), a),
                "xor_self_inverse": (X(X(a_, b_), b_), a),
                "invert": (ops.invert(np.bool_(a)) if rep != "0d" else ops.invert(a_), not a),
            }
            for ln, (got, want) in laws.items():
                v.ev("boolean_semiring", (ln, a, b, c, rep))
                if bool(got) != bool(want) or np.asarray(got).dtype.kind not in "b":
                    v.fail("boolean_semiring", "%s fails at a=%s b=%s c=%s (%s): got %r want %r" % (ln, a, b, c, rep, got, want), ["boolean", ln, rep])
    # element-wise on the full truth table as arrays
    tt = np.array(list(itertools.product(BOOLS, repeat=3)))
    a_, b_, c_ = tt[:, 0], tt[:, 1], tt[:, 2]
    for ln, got, want in (
        ("distrib_right", ops.and_(ops.or_(a_, b_), c_), (a_ | b_) & c_),
        ("or_unit", ops.or_(ops.UNITS[ops.or_], a_), a_),
        ("and_unit", ops.and_(ops.UNITS[ops.and_], a_), a_),
        ("xor_self_inverse", ops.xor(ops.xor(a_, b_), b_), a_),
    ):
        v.ev("boolean_semiring", (ln, "array"))
        if not np.array_equal(np.asarray(got), want):
            v.fail("boolean_semiring", "%s fails element-wise: %s" % (ln, np.asarray(got).tolist()), ["boolean", ln, "array"])


# ---- 2. scalar == 0-d == element-wise --------------------------------------------------------------
def _np(f):
    def g(*a):
        with np.errstate(all="ignore"):
            return f(*[np.asarray(x) for x in a])

    return g


def _ref_log(x):
    x = np.asarray(x)
    if x.dtype == bool:
        return np.where(x, 0.0, -INF)
    return np.log(x)


def _ref_lgamma(x):
    return np.vectorize(math.lgamma, otypes=[float])(x)


def _ref_logaddexp(x, y):
    return np.logaddexp(x, y)


# op name -> (reference, domain predicate on python values, grids)
UNARY = {
    "abs": (_np(np.abs), lambda x: True, [FULL, INTS]),
    "neg": (_np(np.negative), lambda x: True, [FULL, INTS]),
    "pos": (_np(np.positive), lambda x: True, [FULL, INTS]),
    "invert": (_np(np.invert), lambda x: True, [BOOLS, INTS]),
    "exp": (_np(np.exp), lambda x: True, [FULL + [700.0, -745.0, 710.0]]),
    "log": (_np(_ref_log), lambda x: x >= 0, [FULL + [3.0], BOOLS]),
    "log1p": (_np(np.log1p), lambda x: x > -1, [FULL + [3.0]]),
    "sqrt": (_np(np.sqrt), lambda x: x >= 0, [FULL + [4.0]]),
    "tanh": (_np(np.tanh), lambda x: True, [FULL + [20.0, -20.0]]),
    "atanh": (_np(np.arctanh), lambda x: abs(x) < 1, [FULL + [0.99]]),
    "sigmoid": (_np(lambda x: 1 / (1 + np.exp(-x))), lambda x: True, [FULL + [700.0, -700.0, 30.0]]),
    "reciprocal": (_np(lambda x: np.minimum(1.0 / x, FMAX)), lambda x: x != 0, [FULL + [4.0]]),
    "lgamma": (_np(_ref_lgamma), lambda x: x > 0 and x != INF, [[1.0, 0.5, 2.0, 3.0, 10.5, TINY, 1e10]]),
    "detach": (_np(lambda x: x), lambda x: True, [FULL]),
    "isnan": (_np(np.isnan), lambda x: True, [FULL]),
    "clamp[0,1]": (_np(lambda x: np.clip(x, 0.0, 1.0)), lambda x: True, [FULL]),
    "clamp[-1,]": (_np(lambda x: np.clip(x, -1.0, None)), lambda x: True, [FULL]),
}
# ops with parameters: how the table name is called
UNARY_CALL = {
    "clamp[0,1]": lambda x: ops.clamp(x, 0.0, 1.0),
    "clamp[-1,]": lambda x: ops.clamp(x, -1.0, None),
}


def _is_int(x):
    return isinstance(x, (int, np.integer)) and not isinstance(x, (bool, np.bool_))


def _pow_dom(x, y):
    if _is_int(x) and _is_int(y):
        return y >= 0
    if x > 0:
        return True
    if x == 0:
        return y > 0
    return math.isfinite(y) and float(y).is_integer() and math.isfinite(x)


BINARY = {
    "add": (_np(np.add), lambda x, y: True, [FULL, INTS]),
    "sub": (_np(np.subtract), lambda x, y: True, [FULL, INTS]),
    "mul": (_np(np.multiply), lambda x, y: True, [FULL, INTS]),
    "truediv": (_np(np.true_divide), lambda x, y: y != 0, [FULL, INTS]),
    "floordiv": (_np(np.floor_divide), lambda x, y: y != 0 and math.isfinite(x) and math.isfinite(y) and abs(x) < 1e300 and abs(y) > 1e-300, [FULL + [3.0, 7.5], INTS]),
    "mod": (_np(np.mod), lambda x, y: y != 0 and math.isfinite(x) and math.isfinite(y) and abs(x) < 1e300 and abs(y) > 1e-300, [FULL + [3.0, 7.5], INTS]),
    "pow": (_np(np.power), _pow_dom, [MOD + [3.0, INF, -INF, TINY], INTS]),
    "and_": (_np(np.bitwise_and), lambda x, y: True, [BOOLS, INTS]),
    "or_": (_np(np.bitwise_or), lambda x, y: True, [BOOLS, INTS]),
    "xor": (_np(np.bitwise_xor), lambda x, y: True, [BOOLS, INTS]),
    "lshift": (_np(np.left_shift), lambda x, y: y >= 0, [INTS]),
    "rshift": (_np(np.right_shift), lambda x, y: y >= 0, [INTS]),
    "eq": (_np(np.equal), lambda x, y: True, [FULL, INTS, BOOLS]),
    "ne": (_np(np.not_equal), lambda x, y: True, [FULL, INTS, BOOLS]),
    "lt": (_np(np.less), lambda x, y: True, [FULL, INTS]),
    "le": (_np(np.less_equal), lambda x, y: True, [FULL, INTS]),
    "gt": (_np(np.greater), lambda x, y: True, [FULL, INTS]),
    "ge": (_np(np.greater_equal), lambda x, y: True, [FULL, INTS]),
    "max": (_np(np.maximum), lambda x, y: True, [FULL, INTS]),
    "min": (_np(np.minimum), lambda x, y: True, [FULL, INTS]),
    "logaddexp": (_np(_ref_logaddexp), lambda x, y: x != INF and y != INF, [FULL + [700.0, -700.0]]),
    "safesub": (_np(np.subtract), lambda x, y: math.isfinite(y), [FULL]),
    "safediv": (_np(np.true_divide), lambda x, y: y != 0 and math.isfinite(y) and abs(y) >= TINY, [FULL]),
}
SKIPPED_OPS_REASON = "not element-wise scalar functions (reductions are checked separately; structural / linear-algebra / constructor ops take array arguments only)"


def _inherent_shift_underflow(eq, operands, r, want):
    """True iff every wrong entry of r is a -inf that the documented algorithm itself produces: each operand shifted by ITS OWN
    maximum over its reduced dims (clamped at the float minimum), the shifted exponentials multiplied and summed in linear
    space.  A -inf at a position where that algorithm gives a finite value is NOT the known limitation."""
    r = np.asarray(r, dtype=float)
    want = np.asarray(want, dtype=float)
    bad = ~np.isclose(r, want, rtol=1e-6, atol=1e-9, equal_nan=False) & ~((r == want))
    if not np.all(np.isneginf(r[bad]) & np.isfinite(want[bad])):
        return False
    ins, out = eq.split("->")
    ins = ins.split(",")
    with np.errstate(all="ignore"):
        total_shift = 0.0
        exps = []
        for dims, op_ in zip(ins, operands):
            sh = np.asarray(op_, dtype=float)
            for i, d in enumerate(dims):
                if d not in out:
                    sh = np.amax(sh, i, keepdims=True)
            sh = np.clip(sh, np.finfo(float).min, None)
            exps.append(np.exp(op_ - sh))
            kept = [d for d in dims if d in out]
            sh2 = sh.reshape([s_ for s_, d in zip(np.shape(op_), dims) if d in out])
            # broadcast the shift to the output layout
            idx = [kept.index(d) if d in kept else None for d in out]
            sh3 = np.transpose(sh2, [i for i in idx if i is not None]) if sh2.ndim else sh2
            shape = [np.shape(sh3)[[i for i in idx if i is not None].index(i)] if i is not None else 1 for i in idx]
            total_shift = total_shift + np.reshape(sh3, shape)
        model = np.log(np.einsum(eq, *exps)) + total_shift
    model = np.broadcast_to(model, want.shape)
    return bool(np.all(np.isneginf(model[bad])))


def check_agree_unary(v, n):
    op = UNARY_CALL.get(n) or getattr(ops, n)
    ref, dom, grids = UNARY[n]
    for grid in grids:
        vals = [x for x in grid if dom(x)]
        good = []
        for x in vals:
            want = ref(x)
            if has_nan(want):
                continue  # undefined: outside the op's domain
            good.append(x)
            raised, returned = [], []
            for rn, xr in reps(x):
                try:
                    r = call(op, xr)
                except Exception as e:
                    v.declined += 1
                    raised.append((rn, type(e).__name__))
                    continue
                returned.append(rn)
                v.ev("scalar_0d_array_agree", (n, name(x), rn), nontrivial=True)
                if not close(r, want) or has_nan(r):
                    v.fail("scalar_0d_array_agree", "%s(%s) as %s = %r, reference %r" % (n, name(x), rn, r, want), ["agree", n, rn, "x=" + name(x)])
            if raised and returned:
                # inside the op's domain one representation answers and another raises: not "the same answer"
                v.ev("scalar_0d_array_agree", (n, name(x), "raises-on-some"), nontrivial=True)
                v.fail("scalar_0d_array_agree", "%s(%s) raises %s as %s but returns a value as %s (reference %r)" % (n, name(x), raised[0][1], raised[0][0], returned, want), ["agree", n, "raises-on-some-representation", "raises:" + raised[0][1], "as:" + raised[0][0], "x=" + name(x)])
        if not good:
            continue
        for shape in SHAPES[1:]:
            for off in range(0, len(good), max(1, int(np.prod(shape)))):
                arr = fill(good, shape, off)
                try:
                    r = call(op, arr)
                except Exception:
                    v.declined += 1
                    continue
                want = np.array([ref(x) for x in arr.reshape(-1).tolist()]).reshape(shape)
                v.ev("scalar_0d_array_agree", (n, "array", shape, off, str(arr.dtype)))
                if np.shape(r) != shape or not close(r, want):
                    v.fail("scalar_0d_array_agree", "%s element-wise on %s: %s, reference %s" % (n, arr.tolist(), np.asarray(r).tolist(), want.tolist()), ["agree", n, "array"])


def check_agree_binary(v, n):
    op = getattr(ops, n)
    ref, dom, grids = BINARY[n]
    for grid in grids:
        pairs = []
        for x, y in itertools.product(grid, repeat=2):
            try:
                if not dom(x, y):
                    continue
            except OverflowError:
                continue
            want = ref(x, y)
            if has_nan(want):
                continue
            pairs.append((x, y))
            raised, returned = [], []
            for (rx, xr), (ry, yr) in itertools.product(reps(x), reps(y)):
                if "npscalar" in (rx, ry) and rx != ry:
                    continue
                try:
                    r = call(op, xr, yr)
                except Exception as e:
                    v.declined += 1
                    raised.append((rx + "-" + ry, type(e).__name__))
                    continue
                returned.append(rx + "-" + ry)
                v.ev("scalar_0d_array_agree", (n, name(x), name(y), rx, ry))
                if not close(r, want) or has_nan(r):
                    v.fail("scalar_0d_array_agree", "%s(%s, %s) as (%s,%s) = %r, reference %r" % (n, name(x), name(y), rx, ry, r, want), ["agree", n, rx + "-" + ry, "x=" + name(x), "y=" + name(y)])
            if raised and returned:
                v.ev("scalar_0d_array_agree", (n, name(x), name(y), "raises-on-some"))
                v.fail("scalar_0d_array_agree", "%s(%s, %s) raises %s as %s but returns a value as %s (reference %r)" % (n, name(x), name(y), raised[0][1], raised[0][0], returned, want), ["agree", n, "raises-on-some-representation", "raises:" + raised[0][1], "as:" + raised[0][0], "x=" + name(x), "y=" + name(y)])
        if not pairs:
            continue
        for shape in SHAPES[1:]:
            k = int(np.prod(shape))
            for off in range(0, len(pairs), k):
                ch = [pairs[(off + i) % len(pairs)] for i in range(k)]
                a_ = np.array([t[0] for t in ch]).reshape(shape)
                b_ = np.array([t[1] for t in ch]).reshape(shape)
                want = np.array([ref(x, y) for x, y in ch]).reshape(shape)
                try:
                    r = call(op, a_, b_)
                except Exception:
                    v.declined += 1
                    continue
                v.ev("scalar_0d_array_agree", (n, "array-array", shape, off, str(a_.dtype)))
                if np.shape(r) != shape or not close(r, want):
                    v.fail("scalar_0d_array_agree", "%s element-wise a=%s b=%s: %s, reference %s" % (n, a_.tolist(), b_.tolist(), np.asarray(r).tolist(), want.tolist()), ["agree", n, "array-array"])
        # scalar with array, both orders (broadcast)
        xs = sorted({p[0] for p in pairs}, key=lambda t: grid.index(t))
        for x in xs:
            ys = [p[1] for p in pairs if p[0] == x]
            for shape in (SHAPES[2], SHAPES[4]):
                arr = fill(ys, shape)
                want = np.array([ref(x, y) for y in arr.reshape(-1).tolist()]).reshape(shape)
                try:
                    r = call(op, x, arr)
                    v.ev("scalar_0d_array_agree", (n, "py-array", name(x), shape))
                    if np.shape(r) != shape or not close(r, want):
                        v.fail("scalar_0d_array_agree", "%s(%s, array %s) = %s, reference %s" % (n, name(x), arr.tolist(), np.asarray(r).tolist(), want.tolist()), ["agree", n, "py-array", "x=" + name(x)])
                except Exception:
                    v.declined += 1
        ys_all = sorted({p[1] for p in pairs}, key=lambda t: grid.index(t))
        for y in ys_all:
            xs2 = [p[0] for p in pairs if p[1] == y]
            for shape in (SHAPES[2], SHAPES[4]):
                arr = fill(xs2, shape)
                want = np.array([ref(x, y) for x in arr.reshape(-1).tolist()]).reshape(shape)
                try:
                    r = call(op, arr, y)
                    v.ev("scalar_0d_array_agree", (n, "array-py", name(y), shape))
                    if np.shape(r) != shape or not close(r, want):
                        v.fail("scalar_0d_array_agree", "%s(array %s, %s) = %s, reference %s" % (n, arr.tolist(), name(y), np.asarray(r).tolist(), want.tolist()), ["agree", n, "array-py", "y=" + name(y)])
                except Exception:
                    v.declined += 1


REDUCTIONS = {
    "all": np.all,
    "any": np.any,
    "amax": np.amax,
    "amin": np.amin,
    "sum": np.sum,
    "prod": np.prod,
    "mean": np.mean,
    "std": np.std,
    "var": np.var,
}


def check_reductions(v):
    """scalar == 0-d for reductions (axis=None) and array results against numpy written out here."""
    for n, ref in REDUCTIONS.items():
        op = getattr(ops, n)
        vals = BOOLS if n in ("all", "any") else MOD + [3.0, INF, -INF]
        for x in vals:
            if n in ("std", "var", "mean") and not math.isfinite(x):
                continue
            with np.errstate(all="ignore"):
                want = ref(np.asarray(x))
            for rn, xr in reps(x):
                try:
                    r = call(op, xr)
                except Exception:
                    v.declined += 1
                    continue
                v.ev("scalar_0d_array_agree", (n, name(x), rn, "reduction"))
                if not close(r, want):
                    v.fail("scalar_0d_array_agree", "%s(%s) as %s = %r, reference %r" % (n, name(x), rn, r, want), ["agree", n, rn, "reduction"])
        for shape in SHAPES[1:]:
            arr = fill(BOOLS if n in ("all", "any") else MOD + [3.0], shape, 1)
            for axis in [None] + list(range(-len(shape), len(shape))):
                for keep in (False, True):
                    with np.errstate(all="ignore"):
                        want = ref(arr, axis=axis, keepdims=keep)
                    r = call(op, arr, axis, keep) if n not in ("std", "var") else call(type(op)(axis, 0, keep), arr)
                    v.ev("scalar_0d_array_agree", (n, shape, axis, keep, "reduction"))
                    if np.shape(r) != np.shape(want) or not close(r, want):
                        v.fail("scalar_0d_array_agree", "%s(%s, axis=%s, keepdims=%s) = %s reference %s" % (n, arr.tolist(), axis, keep, np.asarray(r).tolist(), np.asarray(want).tolist()), ["agree", n, "reduction", "array"])


# ---- 3. exact limits -------------------------------------------------------------------------------
_DC = decimal.Context(prec=60, Emax=decimal.MAX_EMAX, Emin=decimal.MIN_EMIN)


def dec_lse(values):
    """Exact log-sum-exp of python floats (entries may be -inf) -> float (inf if not representable)."""
    vals = [float(x) for x in values]
    if any(x == INF for x in vals):
        return INF
    fin = [x for x in vals if x != -INF]
    if not fin:
        return -INF
    m = max(fin)
    with decimal.localcontext(_DC):
        s = sum(((decimal.Decimal(x) - decimal.Decimal(m)).exp() for x in fin), decimal.Decimal(0))
        r = decimal.Decimal(m) + s.ln()
        if r > decimal.Decimal(FMAX):
            # true value finite but above the largest float: round-to-nearest gives max unless beyond the midpoint
            return FMAX if r < decimal.Decimal(FMAX) + decimal.Decimal(2) ** 969 else INF
        return float(r)


LSE_GRID = [-INF, 0.0, 1.0, -1.0, 2.0, -745.0, 709.0, -1e300, 1e300, FMAX, -FMAX, TINY]


def check_logaddexp(v):
    grid = LSE_GRID + [0.5, 710.0, -710.0, 1e308]
    for x, y in itertools.product(grid, repeat=2):
        want = dec_lse([x, y])
        for (rx, xr), (ry, yr) in itertools.product(reps(x), reps(y)):
            if "npscalar" in (rx, ry) and rx != ry:
                continue
            try:
                r = call(ops.logaddexp, xr, yr)
            except Exception as e:
                v.fail("logaddexp_exact_limit", "logaddexp(%s,%s) as (%s,%s) raised %s: %s" % (name(x), name(y), rx, ry, type(e).__name__, e), ["logaddexp", rx + "-" + ry, "raise", "x=" + name(x), "y=" + name(y)])
                continue
            v.ev("logaddexp_exact_limit", (name(x), name(y), rx, ry))
            if has_nan(r) or not close(r, want):
                v.fail("logaddexp_exact_limit", "logaddexp(%s,%s) as (%s,%s) = %r, exact limit %r" % (name(x), name(y), rx, ry, r, want), ["logaddexp", rx + "-" + ry, "nan" if has_nan(r) else "value", "x=" + name(x), "y=" + name(y)])
    pairs = list(itertools.product(grid, repeat=2))
    for shape in SHAPES[1:]:
        k = int(np.prod(shape))
        for off in range(0, len(pairs), k):
            ch = [pairs[(off + i) % len(pairs)] for i in range(k)]
            a_ = np.array([t[0] for t in ch]).reshape(shape)
            b_ = np.array([t[1] for t in ch]).reshape(shape)
            want = np.array([dec_lse(t) for t in ch]).reshape(shape)
            r = call(ops.logaddexp, a_, b_)
            v.ev("logaddexp_exact_limit", ("array", shape, off))
            if has_nan(r) or not close(r, want):
                v.fail("logaddexp_exact_limit", "element-wise a=%s b=%s: %s, exact %s" % (a_.tolist(), b_.tolist(), np.asarray(r).tolist(), want.tolist()), ["logaddexp", "array-array", "nan" if has_nan(r) else "value"])


def lse_ref(arr, axis, keepdims):
    arr = np.asarray(arr, dtype=float)
    if axis is None:
        r = np.array(dec_lse(arr.reshape(-1).tolist()))
        return r.reshape((1,) * arr.ndim) if keepdims else r
    ax = axis % arr.ndim
    moved = np.moveaxis(arr, ax, -1)
    out = np.empty(moved.shape[:-1])
    for idx in np.ndindex(*moved.shape[:-1]):
        out[idx] = dec_lse(moved[idx].tolist())
    return np.expand_dims(out, ax) if keepdims else out


def check_logsumexp(v, seed, nrandom):
    rs = np.random.RandomState(seed)
    arrays = []
    for x in LSE_GRID:
        arrays.append(np.array(x))
        arrays.append(np.array([x]))
    for t in itertools.product(LSE_GRID[:9], repeat=3):
        arrays.append(np.array(t))
    for _ in range(nrandom):
        shape = [(3, 2), (1, 2), (2, 3), (2, 2, 2)][rs.randint(4)]
        arrays.append(np.array([LSE_GRID[i] for i in rs.randint(len(LSE_GRID), size=int(np.prod(shape)))]).reshape(shape))
    arrays.append(np.full((3, 2), -INF))
    arrays.append(np.array([[-INF, -INF], [0.0, -INF], [FMAX, FMAX]]))
    for arr in arrays:
        axes = [None] + list(range(-arr.ndim, arr.ndim))
        for axis in axes:
            for keep in (False, True):
                want = lse_ref(arr, axis, keep)
                try:
                    r = call(ops.logsumexp, arr, axis, keep)
                except Exception as e:
                    v.fail("logsumexp_exact_limit", "logsumexp(%s, %s, %s) raised %s: %s" % (arr.tolist(), axis, keep, type(e).__name__, e), ["logsumexp", "raise", "rank%d" % arr.ndim])
                    continue
                v.ev("logsumexp_exact_limit", (arr.tolist(), axis, keep), nontrivial=arr.size > 1)
                if np.shape(r) != np.shape(want) or has_nan(r) or not close(r, want):
                    v.fail("logsumexp_exact_limit", "logsumexp(%s, axis=%s, keepdims=%s) = %s, exact %s" % ([name(t) for t in arr.reshape(-1).tolist()], axis, keep, np.asarray(r).tolist(), np.asarray(want).tolist()), ["logsumexp", "nan" if has_nan(r) else ("shape" if np.shape(r) != np.shape(want) else "value"), "rank%d" % arr.ndim])
    # python scalar == 0-d
    for x in LSE_GRID:
        for rn, xr in reps(x):
            try:
                r = call(ops.logsumexp, xr)
            except Exception as e:
                v.declined += 1
                continue
            v.ev("logsumexp_exact_limit", (name(x), rn))
            if has_nan(r) or not close(r, x):
                v.fail("logsumexp_exact_limit", "logsumexp(%s) as %s = %r" % (name(x), rn, r), ["logsumexp", rn, "x=" + name(x)])


EQUATIONS = [
    ("a->", [(3,)]),
    ("a->a", [(3,)]),
    ("ab->a", [(3, 2)]),
    ("ab->b", [(3, 2)]),
    ("ab->ba", [(3, 2)]),
    ("ab->", [(3, 2)]),
    ("a,a->", [(3,), (3,)]),
    ("a,a->a", [(3,), (3,)]),
    ("ab,b->a", [(3, 2), (2,)]),
    ("ab,bc->ac", [(2, 3), (3, 2)]),
    ("ab,ab->", [(3, 2), (3, 2)]),
    ("a,b->ab", [(3,), (2,)]),
    ("a,b->ba", [(3,), (2,)]),
    ("ab,a->ab", [(3, 2), (3,)]),
    ("ab,a->b", [(3, 2), (3,)]),
    ("a,ab,b->", [(3,), (3, 2), (2,)]),
    ("xy,yz->xz", [(2, 3), (3, 2)]),
    (",a->a", [(), (3,)]),
]
EIN_GRID = [-INF, -1e3, -1.0, 0.0, 2.0, 700.0, 1e300, -1e300]


def naive_einsum(equation, operands, combine):
    ins, out = equation.split("->")
    ins = ins.split(",")
    sizes = {}
    for dims, o in zip(ins, operands):
        for d, s in zip(dims, np.shape(o)):
            sizes[d] = s
    contracted = sorted(set("".join(ins)) - set(out))
    res = np.empty([sizes[d] for d in out])
    for oidx in np.ndindex(*[sizes[d] for d in out]):
        env = dict(zip(out, oidx))
        terms = []
        for cidx in np.ndindex(*[sizes[d] for d in contracted]):
            env.update(zip(contracted, cidx))
            s = 0.0
            for dims, o in zip(ins, operands):
                s = s + float(np.asarray(o)[tuple(env[d] for d in dims)])
            terms.append(s)
        res[oidx] = combine(terms)
    return res


def check_einsum(v, seed, nrandom):
    rs = np.random.RandomState(seed)
    for eq, shapes in EQUATIONS:
        fills = []
        fills.append([np.full(s, -INF) for s in shapes])
        fills.append([np.zeros(s) for s in shapes])
        fills.append([np.full(s, 1e300 if i == 0 else -1e300) for i, s in enumerate(shapes)])
        fills.append([np.full(s, 700.0) for s in shapes])
        # moderate magnitudes whose exponentials underflow relative to the per-operand maximum
        fills.append([np.array([0.0 if (i + j) % 2 == 0 else -800.0 for i in range(int(np.prod(s)))], dtype=float).reshape(s) for j, s in enumerate(shapes)])
        f = [np.array([EIN_GRID[(i + j) % len(EIN_GRID)] for i in range(int(np.prod(s)))], dtype=float).reshape(s) for j, s in enumerate(shapes)]
        fills.append(f)
        f2 = [x.copy() for x in f]
        if f2[0].ndim:
            f2[0][0] = -INF
        fills.append(f2)
        for _ in range(nrandom):
            fills.append([np.array([EIN_GRID[i] for i in rs.randint(len(EIN_GRID), size=int(np.prod(s)))], dtype=float).reshape(s) for s in shapes])
        for k, operands in enumerate(fills):
            with np.errstate(all="ignore"):
                sums_ok = True
                want_log = naive_einsum(eq, operands, dec_lse)
                want_map = naive_einsum(eq, operands, lambda ts: max(ts))
            for modn, mod, want in (("numpy_log", numpy_log, want_log), ("numpy_map", numpy_map, want_map)):
                if has_nan(want):
                    continue
                try:
                    with np.errstate(all="ignore"):
                        r = mod.einsum(eq, *operands)
                except Exception as e:
                    v.fail("einsum_exact_limit", "%s.einsum(%r, shapes %s) raised %s: %s" % (modn, eq, shapes, type(e).__name__, e), ["einsum", modn, "raise", eq])
                    continue
                v.ev("einsum_exact_limit", (modn, eq, k), nontrivial=True)
                if np.shape(r) != np.shape(want) or has_nan(r) or not close(r, want):
                    v.fail(
                        "einsum_exact_limit",
                        "%s.einsum(%r, %s) = %s, exact %s" % (modn, eq, [o.tolist() for o in operands], np.asarray(r).tolist(), np.asarray(want).tolist()),
                        ["einsum", modn, "nan" if has_nan(r) else ("shift_underflow" if _inherent_shift_underflow(eq, operands, r, want) else "value"), eq],
                    )


def check_safe_no_nan(v):
    for n in ("safesub", "safediv"):
        op = getattr(ops, n)
        for x, y in itertools.product(FULL, repeat=2):
            for (rx, xr), (ry, yr) in itertools.product(reps(x), reps(y)):
                if "npscalar" in (rx, ry) and rx != ry:
                    continue
                try:
                    r = call(op, xr, yr)
                except Exception:
                    v.declined += 1
                    continue
                v.ev("safe_ops_never_nan", (n, name(x), name(y), rx, ry))
                if r is None or has_nan(r):
                    form = "undefined_form" if (abs(x) == INF and abs(y) == INF) or (n == "safediv" and x == 0 and y == 0) else "defined_form"
                    arr_ok = not has_nan(call(op, np.array(x), np.array(y)))
                    v.fail(
                        "safe_ops_never_nan",
                        "%s(%s, %s) as (%s,%s) = %r (array-array path gives %r)" % (n, name(x), name(y), rx, ry, r, call(op, np.array(x), np.array(y))),
                        ["safe", n, "nan" if r is not None else "None", form, "scalar_path_only" if arr_ok else "all_paths", rx + "-" + ry, "x=" + name(x), "y=" + name(y)],
                    )
        pairs = list(itertools.product(FULL, repeat=2))
        for shape in SHAPES[1:]:
            k = int(np.prod(shape))
            for off in range(0, len(pairs), k):
                ch = [pairs[(off + i) % len(pairs)] for i in range(k)]
                a_ = np.array([t[0] for t in ch]).reshape(shape)
                b_ = np.array([t[1] for t in ch]).reshape(shape)
                r = call(op, a_, b_)
                v.ev("safe_ops_never_nan", (n, "array", shape, off))
                bad = np.isnan(np.asarray(r, dtype=float))
                if bad.any():
                    und = np.isinf(a_) & np.isinf(b_)
                    form = "undefined_form" if not (bad & ~und).any() else "defined_form"
                    v.fail("safe_ops_never_nan", "%s element-wise nan at a=%s b=%s" % (n, a_[bad].tolist(), b_[bad].tolist()), ["safe", n, "nan", form, "array-array"])
    for x in FULL:
        for rn, xr in reps(x):
            try:
                r = call(ops.reciprocal, xr)
            except Exception:
                v.declined += 1
                continue
            v.ev("safe_ops_never_nan", ("reciprocal", name(x), rn))
            if has_nan(r):
                v.fail("safe_ops_never_nan", "reciprocal(%s) as %s = %r" % (name(x), rn, r), ["safe", "reciprocal", "nan", rn, "x=" + name(x)])
    for shape in SHAPES[1:]:
        arr = fill(FULL, shape)
        r = call(ops.reciprocal, arr)
        v.ev("safe_ops_never_nan", ("reciprocal", "array", shape))
        if has_nan(r):
            v.fail("safe_ops_never_nan", "reciprocal element-wise nan on %s" % arr.tolist(), ["safe", "reciprocal", "nan", "array"])


GROUPS = (
    ["units", "distributive", "inverses", "boolean", "reductions", "logaddexp", "logsumexp", "einsum", "safe"]
    + ["agree_unary:" + n for n in UNARY]
    + ["agree_binary:" + n for n in BINARY]
)


def check_case(case):
    """case = dict(group=..., seed=..., nrandom=...) -> list of (contract, detail, tags)."""
    v = V()
    g = case["group"]
    with np.errstate(all="ignore"):
        if g == "units":
            check_units(v)
        elif g == "distributive":
            check_distributive(v)
        elif g == "inverses":
            check_inverses(v)
        elif g == "boolean":
            check_boolean_semiring(v)
        elif g == "reductions":
            check_reductions(v)
        elif g == "logaddexp":
            check_logaddexp(v)
        elif g == "logsumexp":
            check_logsumexp(v, case.get("seed", 0), case.get("nrandom", 50))
        elif g == "einsum":
            check_einsum(v, case.get("seed", 0), case.get("nrandom", 5))
        elif g == "safe":
            check_safe_no_nan(v)
        elif g.startswith("agree_unary:"):
            check_agree_unary(v, g.split(":")[1])
        elif g.startswith("agree_binary:"):
            check_agree_binary(v, g.split(":")[1])
        else:
            raise KeyError(g)
    check_case.last = v
    return v.viol


def work(chunk):
    from common import RtcResult

    import misc_util

    res = RtcResult("C15", "drv_misc")
    for case in chunk:
        viol = check_case(case)
        v = check_case.last
        res.declined += v.declined
        for c, key, nt in v.evals:
            res.evaluated(c, (c, key), nt, sample=dict(contract=c, case=key) if nt and len(res.samples) < 8 and __import__('zlib').crc32(repr(key).encode()) % 50 == 0 else None)
        for c, d, tags in viol:
            # root tags = everything but the operand values / representation
            root = [t for t in tags if not (t.startswith("x=") or t.startswith("y=") or "->" in t)]
            if c == "safe_ops_never_nan":
                root = [t for t in root if t in ("safe", "safesub", "safediv", "reciprocal", "nan", "None", "undefined_form", "defined_form", "scalar_path_only", "all_paths")]
            extra = [t for t in tags if t not in root]
            misc_util.add_failure(res, c, dict(case, failing=d[:300]), d, lambda: misc_util.module_replay(sys.modules[__name__], case, contract=c, tags=root), root, extra, cap=2)
    return res


def run(res, tier, seed, jobs):
    import misc_util

    thorough = tier != "quick"
    cases = [dict(group=g, seed=seed, nrandom=(400 if g == "logsumexp" else 40) if thorough else (60 if g == "logsumexp" else 6)) for g in GROUPS]
    for r in misc_util.pmap(work, [[c] for c in cases], jobs):
        res.merge(r)
        misc_util.merge_counts(res, r)
    misc_util.cap_failures(res, cap=2)
    covered = set(UNARY) | set(BINARY) | set(REDUCTIONS) | {"logsumexp", "sample"}
    allops = sorted(n for n in dir(ops) if isinstance(getattr(ops, n), ops.Op))
    res.bounds.update(
        grid_full=[name(x) for x in FULL],
        grid_moderate=[name(x) for x in MOD],
        ints=INTS,
        shapes=[list(s) for s in SHAPES],
        representations=["python scalar", "numpy scalar", "0-d array", "arrays of every shape (element-wise)", "python scalar with array (both orders)"],
        tables=dict(
            UNITS=sorted(opname(k) for k in ops.UNITS),
            DISTRIBUTIVE_OPS=sorted((opname(a), opname(b)) for a, b in ops.DISTRIBUTIVE_OPS),
            BINARY_INVERSES=sorted(opname(k) for k in ops.BINARY_INVERSES),
            SAFE_BINARY_INVERSES=sorted(opname(k) for k in ops.SAFE_BINARY_INVERSES),
            UNARY_INVERSES=sorted(opname(k) for k in ops.UNARY_INVERSES),
            PRODUCT_TO_POWER=sorted(opname(k) for k in ops.PRODUCT_TO_POWER),
        ),
        skipped_table_entries=["UNITS/DISTRIBUTIVE_OPS entries of `sample` (alias of logaddexp used for sampling; not an algebraic claim)"],
        distributive_carriers="(add,mul): moderate grid + tiny (overflow is not a table falsehood); (max|min,mul): non-negative finite grid; (max,add): grid without +inf; (min,add): grid without -inf; (logaddexp,add): moderate + {-inf, +-tiny, 3, +-700}; (or_,and_): booleans; triples whose both sides are nan (inf-inf, 0*inf) are outside the carrier",
        elementwise_ops_checked=sorted(set(UNARY) | set(BINARY)),
        reductions_checked=sorted(REDUCTIONS) + ["logsumexp"],
        ops_not_checked_for_scalar_agreement=[n for n in allops if n not in covered],
        ops_not_checked_reason=SKIPPED_OPS_REASON,
        einsum_equations=[e for e, _ in EQUATIONS],
        einsum_values=[name(x) for x in EIN_GRID],
        lse_values=[name(x) for x in LSE_GRID],
        domain_rule="an operand tuple is inside the op's domain iff the per-op predicate holds and the numpy reference is not nan; a python-scalar path that raises (ZeroDivisionError, OverflowError, math domain error) is counted as declined",
        nontrivial_rule="every evaluation except unit checks in mixed scalar representations",
    )
    res.exhaustive = True
    res.notes.append("random part: fills of logsumexp / einsum operands (seeded); everything else is a full product over the stated grids")
    return res
