"""Shared plumbing for drv_misc (C07, C15..C20): fork pool, replay-script assembly, tiny result stub.

Helper modules ``misc_cXX.py`` are written so that their source text, followed by a footer that calls
``check_case(CASE)``, is a stand-alone replay script (they import only funsor from /repo, numpy and
the standard library; never ``common``).
"""
import inspect
import json
import multiprocessing
import os
import sys
import traceback

HERE = os.path.dirname(os.path.abspath(__file__))


def chunked(seq, n):
    seq = list(seq)
    if not seq:
        return []
    k = max(1, (len(seq) + n - 1) // n)
    return [seq[i : i + k] for i in range(0, len(seq), k)]


def pmap(fn, chunks, jobs):
    """Ordered map over chunks in forked workers (deterministic merge order)."""
    chunks = list(chunks)
    if jobs <= 1 or len(chunks) <= 1:
        return [fn(c) for c in chunks]
    ctx = multiprocessing.get_context("fork")
    with ctx.Pool(min(jobs, len(chunks))) as pool:
        return pool.map(fn, chunks, chunksize=1)


def module_replay(module, case, entry="check_case", contract=None, tags=None):
    """Source of ``module`` + footer evaluating the same postconditions on ``case``.
    The helper modules never import anything from /verif, so the text is self-contained."""
    src = inspect.getsource(module)
    footer = (
        "\n\n# ---- replay footer (generated) ----\n"
        "if __name__ == '__main__':\n"
        "    import json as _json, sys as _sys\n"
        "    _case = _json.loads(%r)\n"
        "    _viol = %s(_case)\n"
        "    _c, _t = %r, %r\n"
        "    _viol = [_v for _v in _viol if (_c is None or _v[0] == _c) and (_t is None or set(_t) <= set(_v[2]))]\n"
        "    for _v in _viol:\n"
        "        print('VIOLATION', _v)\n"
        "    _sys.exit(1 if _viol else 0)\n"
    ) % (json.dumps(case), entry, contract, list(tags) if tags is not None else None)
    # neutralise the module's own __main__ block, if any
    src = src.replace("if __name__ == \"__main__\":", "if False:")
    return src + footer


def funsor_frame(tb_text):
    """Innermost traceback frame that lies in /repo/funsor (for `detail`)."""
    best = ""
    lines = tb_text.splitlines()
    for i, ln in enumerate(lines):
        if "/repo/funsor/" in ln and ln.strip().startswith("File"):
            best = ln.strip() + (" :: " + lines[i + 1].strip() if i + 1 < len(lines) else "")
    return best


def short_tb():
    return traceback.format_exc()[-1500:]


def add_failure(res, contract, case, detail, replay_fn, root_tags, extra_tags=(), cap=3):
    """Record a failure; at most ``cap`` full records (with replay script) per (contract, root_tags) and
    result object -- every further one is COUNTED (res.notes via cap_failures) but not stored, because a
    systematic defect otherwise produces thousands of identical multi-kB records."""
    key = (contract, tuple(root_tags))
    cnt = res.__dict__.setdefault("_fail_counts", {})
    cnt[key] = cnt.get(key, 0) + 1
    if cnt[key] <= cap:
        res.fail(contract, case, detail, replay_fn(), list(root_tags) + list(extra_tags))
        res.failures[-1]["root"] = list(root_tags)


def merge_counts(res, other):
    a = res.__dict__.setdefault("_fail_counts", {})
    for k, v in other.__dict__.get("_fail_counts", {}).items():
        a[k] = a.get(k, 0) + v


def cap_failures(res, cap=3):
    """After merging worker results: keep ``cap`` records per (contract, root tags); state the true counts."""
    kept, seen = [], {}
    for f in res.failures:
        key = (f["contract"], tuple(f.get("root", f["tags"])))
        seen[key] = seen.get(key, 0) + 1
        if seen[key] <= cap:
            kept.append(f)
    res.failures = kept
    counts = res.__dict__.get("_fail_counts", {})
    if counts:
        res.bounds["failing_cases_by_contract_and_root_tags"] = {"%s %s" % (k[0], list(k[1])): v for k, v in sorted(counts.items())}
        total = sum(counts.values())
        if total > len(kept):
            res.notes.append(
                "%d failing cases in total; %d records kept (<=%d per (contract, root tags), each with a replay script); full counts in bounds.failing_cases_by_contract_and_root_tags"
                % (total, len(kept), cap)
            )
