"""Shared plumbing for drv_misc (C07, C15..C20): fork pool, replay-script assembly, tiny result stub.

Helper modules ``misc_cXX.py`` are written so that their source text, followed by a footer that calls
``check_case(CASE)``, is a stand-alone replay script (they import only funsor from /repo, numpy and
the standard library; never ``common``).
"""
import inspect
import json
import multiprocessing
import os
import sys
import traceback

HERE = os.path.dirname(os.path.abspath(__file__))


def chunked(seq, n):
    seq = list(seq)
    if not seq:
        return []
    k = max(1, (len(seq) + n - 1) // n)
    return [seq[i : i + k] for i in range(0, len(seq), k)]


def pmap(fn, chunks, jobs):
    """Ordered map over chunks in forked workers (deterministic merge order)."""
    chunks = list(chunks)
    if jobs <= 1 or len(chunks) <= 1:
        return [fn(c) for c in chunks]
    ctx = multiprocessing.get_context("fork")
    with ctx.Pool(min(jobs, len(chunks))) as pool:
        return pool.map(fn, chunks, chunksize=1)


def module_replay(module, case, entry="check_case"):
    """Source of ``module`` + footer evaluating the same postconditions on ``case``.
    The helper modules never import anything from /verif, so the text is self-contained."""
    src = inspect.getsource(module)
    footer = (
        "\n\n# ---- replay footer (generated) ----\n"
        "if __name__ == '__main__':\n"
        "    import json as _json, sys as _sys\n"
        "    _case = _json.loads(%r)\n"
        "    _viol = %s(_case)\n"
        "    for _v in _viol:\n"
        "        print('VIOLATION', _v)\n"
        "    _sys.exit(1 if _viol else 0)\n"
    ) % (json.dumps(case), entry)
    # neutralise the module's own __main__ block, if any
    src = src.replace("if __name__ == \"__main__\":", "if False:")
    return src + footer


def funsor_frame(tb_text):
    """Innermost traceback frame that lies in /repo/funsor (for `detail`)."""
    best = ""
    lines = tb_text.splitlines()
    for i, ln in enumerate(lines):
        if "/repo/funsor/" in ln and ln.strip().startswith("File"):
            best = ln.strip() + (" :: " + lines[i + 1].strip() if i + 1 < len(lines) else "")
    return best


def short_tb():
    return traceback.format_exc()[-1500:]
