"""Bounded run-time contract driver for C08 (normal forms / optimizer / einsum), C09 (plated sum-product),
C10 (Markov products) and C11 (adjoints).  See BRIEF.md.  All contracts, oracles and case builders live in
sumprod_core.py (whose text is also the body of every replay script); the case enumerations live in
sumprod_cases.py; this module schedules cases over a fork pool and accumulates the RtcResult."""
import os

for _v in ("OMP_NUM_THREADS", "OPENBLAS_NUM_THREADS", "MKL_NUM_THREADS"):  # one BLAS thread per worker process
    os.environ.setdefault(_v, "1")

import inspect
import json
import multiprocessing as mp
import sys
import time
from collections import Counter

HERE = os.path.dirname(os.path.abspath(__file__))
if HERE not in sys.path:
    sys.path.insert(0, HERE)

import common  # noqa: E402
import sumprod_cases as cases  # noqa: E402
import sumprod_core as core  # noqa: E402
from common import RtcResult  # noqa: E402

PROPERTIES = ["C08", "C09", "C10", "C11"]

# the tolerance used inside the (self-contained) core must be the fixed one of common.py
assert inspect.getsource(core.close) == inspect.getsource(common.close)
assert (core.RTOL, core.ATOL) == (common.RTOL, common.ATOL)

FULL_REPLAYS_PER_CONTRACT = 2  # self-contained replay scripts (core source embedded); the others import sumprod_core


def _core_sections():
    src = open(os.path.join(HERE, "sumprod_core.py")).read()
    parts = {}
    name = "HEAD"
    buf = []
    for line in src.splitlines(True):
        if line.startswith("# ==== SECTION: "):
            parts[name] = "".join(buf)
            name = line.split("SECTION: ")[1].split(" ")[0]
            buf = []
        buf.append(line)
    parts[name] = "".join(buf)
    return parts


_SECTIONS = None


def replay_source(prop_id, case, full=True):
    global _SECTIONS
    footer = "\n\nCASE = %r\n\nif __name__ == '__main__':\n    sys.exit(replay_main(CASE))\n" % (case,)
    if not full:
        return "import sys\nsys.path.insert(0, %r)\nfrom sumprod_core import *  # noqa\n" % HERE + footer
    if _SECTIONS is None:
        _SECTIONS = _core_sections()
    return _SECTIONS["HEAD"] + _SECTIONS["COMMON"] + _SECTIONS[prop_id] + _SECTIONS["TAIL"] + footer


def _work(args):
    prop_id, chunk = args
    res = RtcResult(prop_id, "drv_sumprod")
    reasons = Counter()
    raw_fails = []
    for idx, case in chunk:
        try:
            out = core.check_case(case)
        except Exception as e:  # a crash of the harness itself must be visible, never silent
            import traceback

            res.notes.append("HARNESS ERROR on %r: %s" % (case, traceback.format_exc()[-800:]))
            continue
        for contract, key, nontrivial in out.evals:
            res.evaluated(contract, key, nontrivial, sample=case if len(res.samples) < 1 else None)
        res.declined += len(out.declined)
        for contract, reason in out.declined:
            reasons[contract + " <- " + reason] += 1
        for k, (contract, detail, tags) in enumerate(out.fails):
            raw_fails.append(((idx, k), contract, case, detail, tags))
    return res, reasons, raw_fails


def run(prop_id, tier="quick", seed=0, jobs=16):
    assert prop_id in PROPERTIES and tier in ("quick", "thorough")
    res = RtcResult(prop_id, "drv_sumprod")
    all_cases, bounds, exhaustive = cases.enumerate_cases(prop_id, tier, seed)
    res.bounds.update(bounds)
    res.bounds["tier"] = tier
    res.bounds["seed"] = seed
    res.bounds["cases"] = len(all_cases)
    res.exhaustive = exhaustive
    # deterministic chunking: interleave so that expensive neighbours are spread over the workers
    nchunks = max(1, min(len(all_cases), jobs * 8))
    indexed = list(enumerate(all_cases))
    chunks = [indexed[i::nchunks] for i in range(nchunks)]
    work = [(prop_id, c) for c in chunks if c]
    if jobs > 1 and len(work) > 1:
        ctx = mp.get_context("fork")
        with ctx.Pool(jobs) as pool:
            parts = pool.map(_work, work, chunksize=1)
    else:
        parts = [_work(w) for w in work]
    reasons = Counter()
    raw_fails = []
    for part, r, f in parts:
        res.merge(part)
        reasons.update(r)
        raw_fails += f
    raw_fails.sort(key=lambda f: f[0])  # enumeration order: the result does not depend on the number of workers
    per_sig = Counter()
    per_contract = Counter()
    for _, contract, case, detail, tags in raw_fails:
        sig = (contract, tuple(tags))
        per_sig[sig] += 1
        full = per_sig[sig] == 1 and per_contract[contract] < FULL_REPLAYS_PER_CONTRACT
        if full:
            per_contract[contract] += 1
        res.fail(contract, case, detail, replay_source(prop_id, case, full=full), tags)
    if reasons:
        res.notes.append("declined by reason: " + json.dumps(dict(sorted(reasons.items()))))
    if per_sig:
        res.notes.append("failures by (contract, tags): " + json.dumps({"%s %s" % (c, list(t)): n for (c, t), n in sorted(per_sig.items())}))
    return res


if __name__ == "__main__":
    prop = sys.argv[1]
    tier = sys.argv[2] if len(sys.argv) > 2 else "quick"
    t0 = time.time()
    r = run(prop, tier, 0)
    print(json.dumps(r.to_json()))
    seen = Counter()
    for f in r.failures:  # every failure on one line; the detail once per (contract, tags) signature
        sig = (f["contract"], tuple(f["tags"]))
        seen[sig] += 1
        print("FAILURE", f["contract"], json.dumps(f["tags"]), json.dumps(f["case"]))
        if seen[sig] == 1:
            print("    " + f["detail"][:600].replace("\n", "\n    "))
    for n in r.notes:
        if n.startswith("HARNESS ERROR"):
            print(n)
    print("failures: %d in %d signatures; wall %.1fs" % (len(r.failures), len(seen), time.time() - t0))
