import sys, time, collections
sys.path.insert(0, "/verif/rtc")
import numpy as np
import gauss_core as C, gauss_gen as G
rs = np.random.RandomState(0)
sigs = list(G.signatures([(), (2,), (2,2)], [1,2,3], max_reals=3, max_ints=2, max_dim=6))
stat=collections.Counter(); fails=collections.defaultdict(list)
t0=time.time(); n=0
def note(label, spec):
    global n
    n+=1
    for r in C.run_case(spec):
        stat[(spec["kind"], r["status"])]+=1
        if r["status"]!="ok":
            key=(r["status"], r["contract"], label.split(":")[0], tuple(t for t in r["tags"] if t.startswith(("raises","value","inputs","split","order","eval","deficient","returns","output","integrand","exact"))), r["detail"][:60])
            fails[key].append((spec.get("leaf",{}).get("inputs"), label, r["detail"][:400]))
for sig in sigs[::int(sys.argv[1])]:
    dim=G.sig_dim(sig)
    for rank in [r for r in G.rank_set(dim) if r>=1]:
        leaf=G.gen_leaf(rs, sig, rank, blocks=True)
        for label, prog, tensor in G.c13_programs(rs, sig, rank):
            note(label, {"kind":"reduce_program","leaf":leaf,"program":prog,"tensor":tensor,"pseed":n})
        if rank>=dim:
            for label, ig, names in G.c13_integrands(rs, sig):
                note(label, {"kind":"integrate","leaf":leaf,"integrand":ig,"names":names,"pseed":n})
            if G.sig_batch(sig):
                for label, t, names in G.c13_mm(rs, sig):
                    note(label, {"kind":"moment_matching","leaf":leaf,"tensor":t,"names":names,"pseed":n})
    for label, frag in G.c13_deficient(rs, sig):
        note(label, dict(frag, kind="deficient", pseed=n))
print(n, time.time()-t0)
for k,v in sorted(stat.items()): print(k,v)
for k,v in sorted(fails.items(), key=lambda kv: -len(kv[1])):
    print(len(v), k); print("    ", v[0])
