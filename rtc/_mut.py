import sys, collections, math
sys.path.insert(0, "/verif/rtc")
import numpy as np
import gauss_core as C, gauss_gen as G
import funsor, funsor.gaussian as FG, funsor.tensor as FT, funsor.ops as ops
def run(specs):
    st=collections.Counter()
    for s in specs:
        for r in C.run_case(s):
            st[(r["contract"], r["status"], tuple(t for t in r["tags"] if t in ("mass","covariance","mean","affine","value","support","determinism")))]+=1
    return dict(st)
rs=np.random.RandomState(0)
sig=[['i','int',2],['x','real',[]],['y','real',[2]]]
gs=[dict(frag, kind="gaussian_sample", pseed=k, npseed=k) for k,(l,frag) in enumerate(G.gaussian_sample_specs(rs, sig))][:24]
ts=[dict(frag, kind="tensor_sample", pseed=k, npseed=k) for k,(l,frag) in enumerate(G.tensor_sample_specs(rs, [2,3]))][:30]
leaf=G.gen_leaf(rs, sig, 4, blocks=True)
ps=[{"kind":"reduce_program","leaf":leaf,"program":p,"tensor":t,"pseed":k} for k,(l,p,t) in enumerate(G.c13_programs(rs, sig, 4))][:60]
print("baseline g", run(gs)); print("baseline t", run(ts)); print("baseline p", run(ps))
# mutant 1: noise scaled
orig=FG._sample_white_noise
FG._sample_white_noise=lambda *a, **k: orig(*a, **k)*1.0001
print("M1 noise*1.0001:", run(gs)); FG._sample_white_noise=orig
# mutant 2: log 2 pi constant
orig_log=FG.math
class M: 
    pi=math.pi*1.00001
    log=staticmethod(math.log); inf=math.inf
FG.math=M
print("M2 pi perturbed (gaussian sample):", run(gs)); print("M2 (programs):", run(ps)); FG.math=orig_log
# mutant 3: tensor sample normaliser: patch ops.logsumexp used in tensor module
orig_lse=FT.ops.logsumexp
class O2:
    def __getattr__(self, n): return getattr(ops, n)
o2=O2()
o2.__dict__['logsumexp']=lambda x, d: orig_lse(x, d)+1e-5
FT.ops=o2
print("M3 tensor normaliser +1e-5:", run(ts)); FT.ops=ops
# mutant 4: _split_real_inputs swapped for interleaved
orig_split=FG._split_real_inputs
def bad(inputs, lhs_keys, prototype):
    a,b=orig_split(inputs, lhs_keys, prototype)
    if not isinstance(a, slice): return a[::-1], b
    return a,b
FG._split_real_inputs=bad
sig2=[['x','real',[2]],['y','real',[]],['z','real',[2]]]
leaf2=G.gen_leaf(rs, sig2, 5, blocks=True)
ps2=[{"kind":"reduce_program","leaf":leaf2,"program":p,"tensor":t,"pseed":k} for k,(l,p,t) in enumerate(G.c13_programs(rs, sig2, 5)) if l.startswith("marg:x+z")]
print("M4 interleaved indices reversed:", run(ps2)); FG._split_real_inputs=orig_split
print("M4 baseline:", run(ps2))
