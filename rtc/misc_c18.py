"""C18: compiled and traced programs compute what interpretation computes (bounded run-time contract).

One *spec* (a small expression tree over named leaves) is turned into
  (a) a lazy funsor expression (built under ``lazy`` or under ``eager`` -> Contraction),
  (b) a python function of ``funsor.ops`` (for ``trace_function``),
  (c) a plain-numpy evaluator: the independent oracle.
Postconditions: compile_funsor(e)(**data) == e(**data).data == oracle == exec(as_code())(**data) ==
pickle round trip; traced(**data') == oracle for the tracing data and for fresh data; a missing or an
unexpected input is rejected.
"""
import itertools
import pickle
import sys
import warnings

sys.path.insert(0, __import__("os").environ.get("VERIF_REPO", "/repo"))
from collections import OrderedDict  # noqa: E402

import numpy as np  # noqa: E402

import funsor  # noqa: E402
from funsor import ops  # noqa: E402
from funsor.compiler import compile_funsor  # noqa: E402
from funsor.domains import Bint, Real, Reals  # noqa: E402
from funsor.interpretations import eager, lazy  # noqa: E402
from funsor.ops.program import OpProgram  # noqa: E402
from funsor.ops.tracer import trace_function  # noqa: E402
from funsor.tensor import Tensor  # noqa: E402
from funsor.terms import Funsor, Number, Tuple, Variable  # noqa: E402

funsor.set_backend("numpy")
RTOL, ATOL = 1e-6, 1e-8


def close(a, b):
    if isinstance(a, tuple) or isinstance(b, tuple):
        return isinstance(a, tuple) and isinstance(b, tuple) and len(a) == len(b) and all(close(x, y) for x, y in zip(a, b))
    a = np.asarray(a)
    b = np.asarray(b)
    if a.shape != b.shape:
        return False
    a = a.astype(float)
    b = b.astype(float)
    fin = np.isfinite(a) & np.isfinite(b)
    if not np.array_equal(np.isnan(a), np.isnan(b)):
        return False
    nf = ~fin & ~np.isnan(a)
    if not np.array_equal(a[nf], b[nf]):
        return False
    return bool(np.all(np.abs(a[fin] - b[fin]) <= ATOL + RTOL * np.maximum(np.abs(a[fin]), np.abs(b[fin]))))


# ---- leaves ------------------------------------------------------------------------------------
VARS = OrderedDict(x=Reals[3], y=Reals[3], a=Reals[3, 3], s=Real, i=Bint[3])
CONSTS = {
    "k2": 2.0,  # python float -> Number
    "k3i": 3,  # python int -> Number
    "c": np.array([1.0, 2.5, 0.5]),  # array constant -> Tensor
    "z": np.array(1.5),  # 0-d array constant -> Tensor
    "kinf": float("inf"),  # non-finite python float -> Number
}


def gen_data(rs):
    return dict(
        x=rs.uniform(0.5, 2.0, (3,)),
        y=rs.uniform(0.5, 2.0, (3,)),
        a=rs.uniform(0.5, 2.0, (3, 3)),
        s=np.asarray(rs.uniform(0.5, 2.0)),
        i=np.asarray(rs.randint(0, 3)),
    )


# ---- ops: name -> (funsor builder, numpy oracle, ops-function builder) -------------------------
UN = {
    "neg": (lambda f: -f, lambda v: -v, lambda v, st: ops.neg(v)),
    "abs": (lambda f: abs(f), np.abs, lambda v, st: ops.abs(v)),
    "tanh": (lambda f: f.tanh(), np.tanh, lambda v, st: ops.tanh(v)),
    "sqrt": (lambda f: f.sqrt(), np.sqrt, lambda v, st: ops.sqrt(v)),
    "log": (lambda f: f.log(), np.log, lambda v, st: ops.log(v)),
    "sigmoid": (lambda f: f.sigmoid(), lambda v: 1 / (1 + np.exp(-v)), lambda v, st: ops.sigmoid(v)),
    "sum": (lambda f: f.sum(), lambda v: np.sum(v), lambda v, st: ops.sum(v)),
    "sum0": (lambda f: f.sum(0), lambda v: np.sum(v, 0), lambda v, st: ops.sum(v, axis=0) if st == "kw" else ops.sum(v, 0)),
    "get0": (lambda f: f[0], lambda v: v[0], lambda v, st: ops.getslice(v, index=0) if st == "kw" else ops.getslice(v, 0)),
    "sl02": (lambda f: f[0:2], lambda v: v[0:2], lambda v, st: ops.getslice(v, index=slice(0, 2)) if st == "kw" else ops.getslice(v, slice(0, 2))),
}
BIN = {
    "add": (lambda l, r: l + r, lambda l, r: l + r, ops.add),
    "sub": (lambda l, r: l - r, lambda l, r: l - r, ops.sub),
    "mul": (lambda l, r: l * r, lambda l, r: l * r, ops.mul),
    "truediv": (lambda l, r: l / r, lambda l, r: l / r, ops.truediv),
    "pow": (lambda l, r: l**r, lambda l, r: l**r, ops.pow),
    "max": (lambda l, r: ops.max(l, r), np.maximum, ops.max),
    "min": (lambda l, r: ops.min(l, r), np.minimum, ops.min),
    "matmul": (lambda l, r: l @ r, lambda l, r: l @ r, ops.matmul),
    "getitem": (lambda l, r: l[r], lambda l, r: l[r], ops.getitem),
}
NEEDS_RANK1 = {"sum0", "get0", "sl02"}


def is_int_leaf(spec):
    return spec == ("var", "i") or spec == ("const", "k3i")


def oracle(spec, data):
    k = spec[0]
    if k == "var":
        return np.asarray(data[spec[1]])
    if k == "const":
        return np.asarray(CONSTS[spec[1]])
    if k == "un":
        return UN[spec[1]][1](oracle(spec[2], data))
    if k == "bin":
        l, r = oracle(spec[2], data), oracle(spec[3], data)
        if spec[1] == "getitem":
            if not (r.dtype.kind in "iu" and r.shape == () and l.ndim >= 1):
                raise TypeError("getitem needs an integer scalar index")
        elif spec[1] == "matmul":
            if l.ndim < 1 or r.ndim < 1:
                raise TypeError("matmul of scalars")
        return BIN[spec[1]][1](l, r)
    if k == "tuple":
        return tuple(oracle(e, data) for e in spec[1])
    raise KeyError(k)


class IllConditioned(Exception):
    pass


def conditioned(spec, data):
    """Precondition on a binding: no intermediate value is nan, and none is infinite unless the
    expression mentions the infinite constant (python floats raise ZeroDivisionError / OverflowError
    where numpy returns inf: scalar-vs-array agreement is C15's topic, not the compiler's)."""
    has_inf = "kinf" in repr(spec)

    def go(sp):
        if sp[0] == "tuple":
            for e in sp[1]:
                go(e)
            return
        v = np.asarray(oracle(sp, data), dtype=float)
        if np.isnan(v).any() or (not has_inf and np.isinf(v).any()):
            raise IllConditioned(repr(sp))
        if sp[0] == "un":
            go(sp[2])
        elif sp[0] == "bin":
            if sp[1] == "truediv" and (np.asarray(oracle(sp[3], data), dtype=float) == 0).any():
                raise IllConditioned("division by zero")
            if sp[1] == "pow" and sp[3][0] != "const" and (np.asarray(oracle(sp[2], data), dtype=float) < 0).any():
                # x ** y with x < 0 is defined only at integer y: a computed exponent one ulp off an integer (funsor evaluates
                # a / a as a * (1 / a)) turns the value into nan -- a discontinuity of the function, not of the compiler
                raise IllConditioned("negative base with a computed exponent")
            go(sp[2])
            go(sp[3])

    try:
        go(spec)
        return True
    except IllConditioned:
        return False


def well_typed(spec, data):
    """Typing by running the numpy oracle on sample data; integer-typed intermediate values are only
    allowed as the index of getitem (keeps Bint arithmetic, whose declared bounds are C06's topic, out)."""
    try:
        with np.errstate(all="ignore"):
            oracle(spec, data)
            ok = conditioned(spec, data)
    except Exception:
        return False
    return ok and _no_int_arith(spec)


def tensor_with_inputs(expr, seen=None):
    """Does the term contain a Tensor leaf that still has named inputs (eager indexing of a constant)?"""
    seen = set() if seen is None else seen
    if id(expr) in seen:
        return False
    seen.add(id(expr))
    if isinstance(expr, Tensor):
        return bool(expr.inputs)
    if isinstance(expr, Funsor):
        return any(tensor_with_inputs(a, seen) for a in expr._ast_values)
    if isinstance(expr, (tuple, frozenset)):
        return any(tensor_with_inputs(a, seen) for a in expr)
    return False


def _no_int_arith(spec):
    k = spec[0]
    if k in ("var", "const"):
        return True
    if k == "un":
        return not is_int_leaf(spec[2]) and _no_int_arith(spec[2])
    if k == "bin":
        if spec[1] == "getitem":
            return spec[3] == ("var", "i") and not is_int_leaf(spec[2]) and _no_int_arith(spec[2])
        return not is_int_leaf(spec[2]) and not is_int_leaf(spec[3]) and _no_int_arith(spec[2]) and _no_int_arith(spec[3])
    if k == "tuple":
        return all(_no_int_arith(e) and not is_int_leaf(e) for e in spec[1])
    return False


def build_funsor(spec):
    k = spec[0]
    if k == "var":
        return Variable(spec[1], VARS[spec[1]])
    if k == "const":
        c = CONSTS[spec[1]]
        return Tensor(c) if isinstance(c, np.ndarray) else Number(c)
    if k == "un":
        return UN[spec[1]][0](build_funsor(spec[2]))
    if k == "bin":
        return BIN[spec[1]][0](build_funsor(spec[2]), build_funsor(spec[3]))
    if k == "tuple":
        return Tuple(tuple(build_funsor(e) for e in spec[1]))
    raise KeyError(k)


def build_opsfn(spec, style):
    """Python function of funsor.ops on arrays (closure over the spec)."""

    def ev(sp, kw):
        k = sp[0]
        if k == "var":
            return kw[sp[1]]
        if k == "const":
            return CONSTS[sp[1]]
        if k == "un":
            return UN[sp[1]][2](ev(sp[2], kw), style)
        if k == "bin":
            return BIN[sp[1]][2](ev(sp[2], kw), ev(sp[3], kw))
        raise KeyError(k)

    def fn(**kw):
        return ev(spec, kw)

    return fn


def spec_vars(spec, acc=None):
    acc = [] if acc is None else acc
    if spec[0] == "var":
        if spec[1] not in acc:
            acc.append(spec[1])
    elif spec[0] == "un":
        spec_vars(spec[2], acc)
    elif spec[0] == "bin":
        spec_vars(spec[2], acc)
        spec_vars(spec[3], acc)
    elif spec[0] == "tuple":
        for e in spec[1]:
            spec_vars(e, acc)
    return acc


def spec_tags(spec, acc=None):
    acc = set() if acc is None else acc
    if spec[0] == "const":
        acc.add("const:" + ("array" if isinstance(CONSTS[spec[1]], np.ndarray) else "scalar"))
    elif spec[0] == "un":
        acc.add(spec[1])
        spec_tags(spec[2], acc)
    elif spec[0] == "bin":
        acc.add(spec[1])
        spec_tags(spec[2], acc)
        spec_tags(spec[3], acc)
    elif spec[0] == "tuple":
        acc.add("tuple")
        for e in spec[1]:
            spec_tags(e, acc)
    return acc


def to_tuple(x):
    """json lists -> nested tuples"""
    if isinstance(x, list):
        return tuple(to_tuple(v) for v in x)
    return x


def extract(v):
    if isinstance(v, (Number, Tensor)):
        if v.inputs:
            raise ValueError("open")
        return np.asarray(v.data)
    if isinstance(v, Tuple):
        return tuple(extract(a) for a in v.args)
    raise ValueError("lazy: %s" % type(v).__name__)


class Declined(Exception):
    pass


def check_compile(case):
    spec = to_tuple(case["spec"])
    mode = case["mode"]
    viol = []
    st = spec_tags(spec)
    tags = [mode] + sorted(t for t in st if t.startswith("const:")) + (["const:nonfinite"] if "kinf" in repr(spec) else [])
    warnings.simplefilter("ignore")
    with np.errstate(all="ignore"):
        try:
            with lazy if mode == "lazy" else eager:
                expr = build_funsor(spec)
        except Exception as e:
            raise Declined("construction raised %s" % type(e).__name__)
        if not isinstance(expr, Funsor):
            raise Declined("not a funsor")
        if tensor_with_inputs(expr):
            tags = tags + ["const:tensor_with_inputs"]
        try:
            prog = compile_funsor(expr)
        except NotImplementedError as e:
            raise Declined("compiler declined: %s" % e)
        rs = np.random.RandomState(case["seed"])
        for b in range(case.get("nbind", 2)):
            full = gen_data(rs)
            if not conditioned(spec, full):
                continue  # precondition of the contract on the binding
            data = {k: full[k] for k in expr.inputs}
            want = oracle(spec, full)
            label = "binding %d" % b
            # value by substitution (the property's reference) ------------------------------------
            subs_val = None
            try:
                with eager:
                    subs_val = extract(expr(**data))
            except Exception:
                subs_val = None
            if subs_val is not None and not close(subs_val, want):
                viol.append(("subs_equals_oracle", "%s: expr(**data)=%r oracle=%r" % (label, subs_val, want), tags + ["subs"]))
            # program -----------------------------------------------------------------------------
            try:
                got = prog(**data)
            except Exception as e:
                viol.append(("program_equals_subs", "%s: program raised %s: %s" % (label, type(e).__name__, e), tags + ["program", "raise"]))
                continue
            if not close(got, want) or (subs_val is not None and not close(got, subs_val)):
                viol.append(("program_equals_subs", "%s: program=%r subs=%r oracle=%r" % (label, got, subs_val, want), tags + ["program"]))
            # printed source ----------------------------------------------------------------------
            try:
                code = prog.as_code(name="program2")
                env = {}
                exec(code, None, env)
                got2 = env["program2"](**data)
                if not close(got2, want):
                    viol.append(("as_code_equals_subs", "%s: code=%r oracle=%r\n%s" % (label, got2, want, code), tags + ["as_code", "value"]))
            except Exception as e:
                viol.append(("as_code_equals_subs", "%s: exec(as_code()) raised %s: %s\n%s" % (label, type(e).__name__, e, prog.as_code()), tags + ["as_code", type(e).__name__]))
            # pickle ------------------------------------------------------------------------------
            try:
                prog3 = pickle.loads(pickle.dumps(prog))
                got3 = prog3(**data)
                if not close(got3, want):
                    viol.append(("pickle_equals_subs", "%s: pickled=%r oracle=%r" % (label, got3, want), tags + ["pickle", "value"]))
            except Exception as e:
                viol.append(("pickle_equals_subs", "%s: pickle round trip raised %s: %s" % (label, type(e).__name__, e), tags + ["pickle", "raise"]))
                prog3 = None
            # rejected inputs ---------------------------------------------------------------------
            if b == 0:
                for p, pl in ((prog, "program"), (prog3, "pickled")):
                    if p is None:
                        continue
                    for k in data:
                        d2 = {kk: v for kk, v in data.items() if kk != k}
                        try:
                            r = p(**d2)
                            viol.append(("missing_input_rejected", "%s without %r returned %r" % (pl, k, r), tags + ["missing", pl]))
                        except Exception:
                            pass
                    try:
                        r = p(unexpected_input=np.zeros(3), **data)
                        viol.append(("unexpected_input_rejected", "%s with an extra kwarg returned %r" % (pl, r), tags + ["unexpected", pl]))
                    except Exception:
                        pass
    return viol


def check_trace(case):
    spec = to_tuple(case["spec"])
    style = case["style"]
    st = spec_tags(spec)
    tags = ["trace", style] + sorted(t for t in st if t.startswith("const:")) + (["const:nonfinite"] if "kinf" in repr(spec) else [])
    viol = []
    warnings.simplefilter("ignore")
    with np.errstate(all="ignore"):
        names = spec_vars(spec)
        if not names:
            raise Declined("no inputs")
        rs = np.random.RandomState(case["seed"])
        full = gen_data(rs)
        data = {k: full[k] for k in names}
        fn = build_opsfn(spec, style)
        if not conditioned(spec, full):
            raise Declined("ill-conditioned binding")
        want = oracle(spec, full)
        has_array_const = "const:array" in spec_tags(spec)
        try:
            direct = fn(**data)
        except Exception as e:
            raise Declined("ops function raised %s" % type(e).__name__)
        if not close(direct, want):
            # the ops themselves disagree with numpy: C15's topic, not the tracer's
            raise Declined("ops function differs from oracle")
        try:
            prog = trace_function(fn, data, allow_constants=has_array_const)
        except Exception as e:
            raise Declined("trace_function raised %s: %s" % (type(e).__name__, e))
        full2 = gen_data(rs)
        if not conditioned(spec, full2):
            full2 = full
        data2 = {k: full2[k] for k in names}
        for lab, d, w in (("tracing data", data, want), ("fresh data", data2, oracle(spec, full2))):
            try:
                got = prog(**d)
            except Exception as e:
                viol.append(("traced_equals_function", "%s: traced program raised %s: %s" % (lab, type(e).__name__, e), tags + ["raise"]))
                continue
            if not close(got, w):
                viol.append(("traced_equals_function", "%s: traced=%r function=%r\n%s" % (lab, got, w, prog.as_code()), tags + ["value"]))
            try:
                env = {}
                exec(prog.as_code(name="p2"), None, env)
                got2 = env["p2"](**d)
                if not close(got2, w):
                    viol.append(("traced_as_code_equals_function", "%s: code=%r function=%r" % (lab, got2, w), tags + ["as_code", "value"]))
            except Exception as e:
                viol.append(("traced_as_code_equals_function", "%s: exec raised %s: %s" % (lab, type(e).__name__, e), tags + ["as_code", type(e).__name__]))
            try:
                got3 = pickle.loads(pickle.dumps(prog))(**d)
                if not close(got3, w):
                    viol.append(("traced_pickle_equals_function", "%s: pickled=%r function=%r" % (lab, got3, w), tags + ["pickle", "value"]))
            except Exception as e:
                viol.append(("traced_pickle_equals_function", "%s: raised %s: %s" % (lab, type(e).__name__, e), tags + ["pickle", "raise"]))
        for k in data:
            try:
                r = prog(**{kk: v for kk, v in data.items() if kk != k})
                viol.append(("missing_input_rejected", "traced without %r returned %r" % (k, r), tags + ["missing"]))
            except Exception:
                pass
        try:
            r = prog(unexpected_input=np.zeros(3), **data)
            viol.append(("unexpected_input_rejected", "traced with extra kwarg returned %r" % (r,), tags + ["unexpected"]))
        except Exception:
            pass
    return viol


def check_case(case):
    try:
        return check_compile(case) if case["kind"] == "compile" else check_trace(case)
    except Declined as d:
        return [("DECLINED", str(d), ())]


# ---- enumeration --------------------------------------------------------------------------------
def exprs(leaves, un, bn, depth, sample_data):
    """All well-typed specs of depth <= depth (depth 1 = leaf), as a list per exact depth."""
    by_depth = {1: list(leaves)}
    upto = list(leaves)
    for d in range(2, depth + 1):
        new = []
        prev = by_depth[d - 1]
        lower = [e for dd in range(1, d - 1) for e in by_depth[dd]]
        for u in un:
            for e in prev:
                sp = ("un", u, e)
                if well_typed(sp, sample_data):
                    new.append(sp)
        for b in bn:
            # at least one child of depth d-1
            for l in prev:
                for r in prev + lower:
                    sp = ("bin", b, l, r)
                    if well_typed(sp, sample_data):
                        new.append(sp)
            for l in lower:
                for r in prev:
                    sp = ("bin", b, l, r)
                    if well_typed(sp, sample_data):
                        new.append(sp)
        by_depth[d] = new
        upto += new
    return by_depth


FULL_LEAVES = [("var", n) for n in VARS] + [("const", n) for n in CONSTS]
FULL_UN = list(UN)
FULL_BIN = list(BIN)
RED_LEAVES = [("var", "x"), ("var", "a"), ("const", "k2"), ("const", "c")]
RED_UN = ["neg", "sum"]
RED_BIN = ["sub", "truediv", "matmul"]


def random_spec(rs, depth, sample_data, tries=50):
    def gen(d):
        if d == 1 or rs.rand() < 0.15:
            return FULL_LEAVES[rs.randint(len(FULL_LEAVES))]
        if rs.rand() < 0.35:
            return ("un", FULL_UN[rs.randint(len(FULL_UN))], gen(d - 1))
        return ("bin", FULL_BIN[rs.randint(len(FULL_BIN))], gen(d - 1), gen(d - 1))

    for _ in range(tries):
        sp = gen(depth)
        if well_typed(sp, sample_data):
            return sp
    return None


def cases(tier, seed):
    thorough = tier != "quick"
    rs = np.random.RandomState(seed)
    sample = gen_data(np.random.RandomState(99))
    out = []
    full = exprs(FULL_LEAVES, FULL_UN, FULL_BIN, 2, sample)
    red = exprs(RED_LEAVES, RED_UN, RED_BIN, 3, sample)
    n_exh = 0
    for d in (1, 2):
        for sp in full[d]:
            for mode in ("lazy", "eager"):
                out.append(dict(kind="compile", spec=sp, mode=mode, seed=int(rs.randint(1 << 30)), nbind=2))
            n_exh += 1
    for sp in red[3]:
        out.append(dict(kind="compile", spec=sp, mode="lazy", seed=int(rs.randint(1 << 30)), nbind=1))
        if thorough:
            out.append(dict(kind="compile", spec=sp, mode="eager", seed=int(rs.randint(1 << 30)), nbind=1))
        n_exh += 1
    # random full-signature depth 3 (shared sub-expressions arise through hash-consing of repeated subtrees)
    nrand = 20000 if thorough else 1500
    seen = set()
    seen_list = []
    pool2 = full[1] + full[2]
    while len(seen) < nrand:
        if rs.rand() < 0.3:
            # force sharing: op(e, e) or op(f(e), e)
            e = pool2[rs.randint(len(pool2))]
            b = FULL_BIN[rs.randint(len(FULL_BIN))]
            u = FULL_UN[rs.randint(len(FULL_UN))]
            sp = ("bin", b, ("un", u, e), e) if rs.rand() < 0.5 else ("bin", b, e, ("bin", "mul", e, e))
            if not well_typed(sp, sample):
                continue
        else:
            sp = random_spec(rs, 3, sample)
        if sp is None or sp in seen:
            continue
        seen.add(sp)
        seen_list.append(sp)
        out.append(dict(kind="compile", spec=sp, mode="lazy" if rs.rand() < 0.6 else "eager", seed=int(rs.randint(1 << 30)), nbind=1))
    # tuples of 1..3 sub-expressions (a one-component Tuple is still a tuple), and a nested one-component tuple
    ntup = 3000 if thorough else 300
    for it in range(ntup):
        k = 1 + rs.randint(3)
        parts = tuple(pool2[rs.randint(len(pool2))] for _ in range(k))
        if it % 25 == 0:
            parts = (("tuple", parts[:1]),) + parts[1:]
        sp = ("tuple", parts)
        if not well_typed(sp, sample):
            continue
        out.append(dict(kind="compile", spec=sp, mode="lazy" if rs.rand() < 0.5 else "eager", seed=int(rs.randint(1 << 30)), nbind=1))
    # traced functions: depth <= 2 exhaustive in both call styles, + reduced depth 3, + random
    for d in (1, 2):
        for sp in full[d]:
            styles = ("pos", "kw") if spec_tags(sp) & NEEDS_RANK1 else ("pos",)
            for st in styles:
                out.append(dict(kind="trace", spec=sp, style=st, seed=int(rs.randint(1 << 30))))
    for sp in red[3]:
        out.append(dict(kind="trace", spec=sp, style="pos", seed=int(rs.randint(1 << 30))))
    for sp in seen_list[: (5000 if thorough else 500)]:
        out.append(dict(kind="trace", spec=sp, style="kw" if rs.rand() < 0.5 else "pos", seed=int(rs.randint(1 << 30))))
    meta = dict(
        exhaustive_depth2_full_signature=len(full[1]) + len(full[2]),
        exhaustive_depth3_reduced_signature=len(red[3]),
        random_depth3_full_signature=nrand,
        tuples=ntup,
    )
    return out, meta


def root_tags(contract, tags, has_param_op=False):
    """Stable classification of a failure (used for matching known findings and for capping records)."""
    t = set(tags)
    reason = "raise" if t & {"raise", "SyntaxError", "NameError", "ValueError", "TypeError"} else "value"
    if "as_code" in contract:
        if "const:array" in t:
            return ["as_code", "const:array"]
        if "const:nonfinite" in t and "NameError" in t:
            return ["as_code", "const:nonfinite"]
        if "kw" in t and has_param_op:
            return ["as_code", "trace", "op_kwargs"]
        return ["as_code", reason] + sorted(t & {"SyntaxError", "NameError", "ValueError", "TypeError"})
    if contract.startswith("traced"):
        if "kw" in t and has_param_op:
            return ["trace", "op_kwargs"]
        return ["trace", reason]
    if contract in ("program_equals_subs", "pickle_equals_subs"):
        if "const:tensor_with_inputs" in t:
            return ["program", "const:tensor_with_inputs"]
        return ["program", reason]
    if contract == "subs_equals_oracle":
        return ["subs", reason]
    return [contract]


def work(chunk):
    from common import RtcResult

    import misc_util

    res = RtcResult("C18", "drv_misc")
    for case in chunk:
        try:
            viol = check_case(case)
        except Exception as e:
            import traceback

            viol = [("harness_or_funsor_exception", traceback.format_exc()[-1200:], ("exception", type(e).__name__))]
        if viol and viol[0][0] == "DECLINED":
            res.declined += 1
            continue
        spec = to_tuple(case["spec"])
        nontriv = spec[0] not in ("var", "const")
        key = (case["kind"], repr(spec), case.get("mode"), case.get("style"), case["seed"])
        names = (
            ["program_equals_subs", "as_code_equals_subs", "pickle_equals_subs", "missing_input_rejected", "unexpected_input_rejected"]
            if case["kind"] == "compile"
            else ["traced_equals_function", "traced_as_code_equals_function", "traced_pickle_equals_function", "missing_input_rejected", "unexpected_input_rejected"]
        )
        for c in names:
            res.evaluated(c, key + (c,), nontriv, sample=dict(case) if nontriv and c == names[0] and spec[0] == "bin" and spec[2][0] != "var" else None)
        seen = set()
        optags = sorted(t for t in spec_tags(spec) if not t.startswith("const:"))
        hp = bool(spec_tags(spec) & NEEDS_RANK1)
        for c, d, tags in viol:
            if (c, tuple(tags)) in seen:
                continue
            seen.add((c, tuple(tags)))
            misc_util.add_failure(res, c, case, d, lambda: misc_util.module_replay(sys.modules[__name__], case, contract=c), root_tags(c, tags, hp), sorted(set(tags) - set(root_tags(c, tags, hp))) + optags)
    return res


def run(res, tier, seed, jobs):
    import misc_util

    cs, meta = cases(tier, seed)
    chunks = [cs[i :: jobs * 4] for i in range(jobs * 4)]
    for r in misc_util.pmap(work, [c for c in chunks if c], jobs):
        res.merge(r)
        misc_util.merge_counts(res, r)
    misc_util.cap_failures(res)
    res.bounds.update(meta)
    res.bounds.update(
        leaves=[l[1] for l in FULL_LEAVES],
        unary=FULL_UN,
        binary=FULL_BIN,
        reduced_signature=dict(leaves=[l[1] for l in RED_LEAVES], unary=RED_UN, binary=RED_BIN),
        modes=["lazy (Unary/Binary terms)", "eager (normalised: Contraction without reduction)"],
        bindings="1-2 seeded random bindings per expression, values in [0.5, 2], index in 0..2",
        trace_styles=["pos: parameters of parametrised ops passed positionally", "kw: passed by keyword"],
        cases=len(cs),
        nontrivial_rule="expression has at least one operation",
        typing="well-typed = the numpy oracle evaluates; integer leaves only as getitem index",
    )
    res.exhaustive = False
    res.notes.append("depth<=2 over the full signature and depth 3 over the reduced signature are exhaustive; depth 3 over the full signature is sampled (seeded)")
    return res
