"""gauss_core: spec interpreter shared by drv_gauss (C12, C13, C14) and by its replay scripts.

A *case* is a plain-data ``spec`` (dicts / lists / ints / floats / strings only).  ``run_case(spec)``
rebuilds the funsor input from the spec, drives the REAL funsor code, evaluates the postcondition of the
contract against the naive oracle below and returns a list of outcome records

    dict(status="ok"|"fail"|"declined", contract=..., tags=[...], detail=..., nontrivial=bool)

The oracle never calls funsor: a Gaussian leaf is the dense triple (P, eta, c) per batch element assembled
with plain numpy from the raw constructor arguments, an oracle value is a python closure from a *point*
(dict name -> int | ndarray) to a float, and every operation is defined pointwise on closures.

The module is self-contained apart from ``close`` (the fixed tolerance of rtc/common.py); replay scripts
are built by ``drv_gauss.make_replay`` as  <source of close> + <this source> + <spec literal>.
"""
import itertools
import math
import sys
from collections import OrderedDict

import numpy as np

sys.path.insert(0, "/repo")  # REPLAY-KEEP
from common import close  # REPLAY-STRIP

import funsor
import funsor.ops as ops
from funsor.delta import Delta
from funsor.domains import Bint, Real, Reals
from funsor.gaussian import Gaussian
from funsor.integrate import Integrate
from funsor.interpreter import reinterpret
from funsor.tensor import Tensor
from funsor.terms import Cat, Funsor, Number, Slice, Variable

funsor.set_backend("numpy")

LOG2PI = math.log(2 * math.pi)


# ------------------------------------------------------------------------------------------------
# plain-data encoding of arrays


def enc(a):
    a = np.asarray(a)
    return {"s": list(a.shape), "d": [x.item() for x in a.reshape(-1)]}


def dec(e, dtype=float):
    return np.array(e["d"], dtype=dtype).reshape(tuple(e["s"]))


def prod(shape):
    r = 1
    for s in shape:
        r *= int(s)
    return r


# ------------------------------------------------------------------------------------------------
# oracle values


class Orc:
    """Oracle value: ``inputs`` maps name -> ("int", size) | ("real", shape); ``fn`` maps a point to a float."""

    def __init__(self, inputs, fn):
        self.inputs = OrderedDict(inputs)
        self.fn = fn

    def __call__(self, p):
        return self.fn(p)


def dom_to_funsor(d):
    return Bint[d[1]] if d[0] == "int" else Reals[tuple(d[1])]


def dom_of_funsor(d):
    if d.dtype == "real":
        return ("real", tuple(d.shape))
    return ("int", int(d.dtype))


def leaf_inputs(leaf):
    out = OrderedDict()
    for name, kind, s in leaf["inputs"]:
        out[name] = ("int", int(s)) if kind == "int" else ("real", tuple(s))
    return out


def dense_leaf(leaf):
    """(int_names, real_names, P, eta, c): the dense quadratic form  -1/2 x'Px + x'eta + c  per batch
    element, x = concatenation of the flattened real inputs in declaration order.  Plain numpy."""
    inputs = leaf_inputs(leaf)
    ints = [(n, d[1]) for n, d in inputs.items() if d[0] == "int"]
    reals = [(n, d[1]) for n, d in inputs.items() if d[0] == "real"]
    bshape = tuple(s for _, s in ints)
    D = sum(prod(s) for _, s in reals)
    args = {k: dec(v) for k, v in leaf["args"].items()}
    P = np.zeros(bshape + (D, D))
    eta = np.zeros(bshape + (D,))
    c = np.zeros(bshape)
    for b in np.ndindex(*bshape):
        if "prec_sqrt" in args:
            S = args["prec_sqrt"][b]
            Pb = S @ S.T
        elif "precision" in args:
            Pb = args["precision"][b]
        elif "covariance" in args:
            Pb = np.linalg.inv(args["covariance"][b])
        elif "scale_tril" in args:
            L = args["scale_tril"][b]
            Pb = np.linalg.inv(L @ L.T)
        else:
            raise ValueError("no scale parameter")
        if "white_vec" in args:
            w = args["white_vec"][b]
            S = args["prec_sqrt"][b]
            eb = S @ w
            cb = -0.5 * float(w @ w)
        elif "mean" in args:
            m = args["mean"][b]
            eb = Pb @ m
            cb = -0.5 * float(m @ Pb @ m)
        elif "info_vec" in args:
            eb = args["info_vec"][b]
            cb = -0.5 * float(eb @ np.linalg.solve(Pb, eb))
        else:
            raise ValueError("no location parameter")
        P[b] = 0.5 * (Pb + Pb.T)
        eta[b] = eb
        c[b] = cb
    return ints, reals, P, eta, c


def flat_point(reals, p):
    parts = [np.asarray(p[n], dtype=float).reshape(-1) for n, _ in reals]
    return np.concatenate(parts) if parts else np.zeros(0)


def orc_dense(ints, reals, P, eta, c):
    inputs = OrderedDict()
    for n, s in ints:
        inputs[n] = ("int", s)
    for n, s in reals:
        inputs[n] = ("real", tuple(s))

    def fn(p):
        b = tuple(int(p[n]) for n, _ in ints)
        x = flat_point(reals, p)
        return float(-0.5 * x @ P[b] @ x + x @ eta[b] + c[b])

    return Orc(inputs, fn)


def orc_leaf(leaf):
    ints, reals, P, eta, c = dense_leaf(leaf)
    o = orc_dense(ints, reals, P, eta, c)
    # keep the declaration order of the leaf (order is irrelevant to the contract; names -> domains is)
    o.inputs = leaf_inputs(leaf)
    return o


def orc_tensor(tspec):
    data = dec(tspec["data"])
    names = [(n, int(s)) for n, s in tspec["inputs"]]

    def fn(p):
        return float(data[tuple(int(p[n]) for n, _ in names)])

    return Orc(OrderedDict((n, ("int", s)) for n, s in names), fn)


def rand_point(inputs, rs):
    p = {}
    for n, d in inputs.items():
        if d[0] == "int":
            p[n] = int(rs.randint(d[1]))
        else:
            p[n] = rs.randn(*d[1]) if d[1] else np.asarray(rs.randn())
    return p


# ------------------------------------------------------------------------------------------------
# affine / value expressions: own numpy evaluator + funsor builder


def ex_eval(e, p):
    t = e[0]
    if t == "var":
        return np.asarray(p[e[1]], dtype=float)
    if t == "const":
        a = dec(e[1])
        idx = tuple(int(p[n]) for n, _ in e[2])
        return a[idx]
    if t == "add":
        return ex_eval(e[1], p) + ex_eval(e[2], p)
    if t == "sub":
        return ex_eval(e[1], p) - ex_eval(e[2], p)
    if t == "mul":
        return ex_eval(e[1], p) * ex_eval(e[2], p)
    if t == "div":
        return ex_eval(e[1], p) / ex_eval(e[2], p)
    if t == "neg":
        return -ex_eval(e[1], p)
    if t == "getitem":
        return ex_eval(e[1], p)[e[2]]
    if t == "sum":
        return np.asarray(ex_eval(e[1], p).sum())
    if t == "reshape":
        return ex_eval(e[1], p).reshape(tuple(e[2]))
    if t == "matmul":
        return ex_eval(e[1], p) @ ex_eval(e[2], p)
    raise ValueError(t)


def ex_inputs(e, out=None):
    out = OrderedDict() if out is None else out
    t = e[0]
    if t == "var":
        out[e[1]] = ("real", tuple(e[2]))
    elif t == "const":
        for n, s in e[2]:
            out[n] = ("int", int(s))
    else:
        for a in e[1:]:
            if isinstance(a, list) and a and isinstance(a[0], str) and a[0] in EX_HEADS:
                ex_inputs(a, out)
    return out


EX_HEADS = {"var", "const", "add", "sub", "mul", "div", "neg", "getitem", "sum", "reshape", "matmul"}


def ex_build(e):
    t = e[0]
    if t == "var":
        return Variable(e[1], Reals[tuple(e[2])])
    if t == "const":
        return Tensor(dec(e[1]), OrderedDict((n, Bint[int(s)]) for n, s in e[2]))
    if t == "add":
        return ex_build(e[1]) + ex_build(e[2])
    if t == "sub":
        return ex_build(e[1]) - ex_build(e[2])
    if t == "mul":
        return ex_build(e[1]) * ex_build(e[2])
    if t == "div":
        return ex_build(e[1]) / ex_build(e[2])
    if t == "neg":
        return -ex_build(e[1])
    if t == "getitem":
        return ex_build(e[1])[e[2]]
    if t == "sum":
        return ex_build(e[1]).sum()
    if t == "reshape":
        return ex_build(e[1]).reshape(tuple(e[2]))
    if t == "matmul":
        return ex_build(e[1]) @ ex_build(e[2])
    raise ValueError(t)


def ex_tags(e, out=None):
    out = set() if out is None else out
    out.add("expr:" + e[0])
    for a in e[1:]:
        if isinstance(a, list) and a and isinstance(a[0], str) and a[0] in EX_HEADS:
            ex_tags(a, out)
    return out


# ------------------------------------------------------------------------------------------------
# substitution values


def val_build(vs, dom):
    t = vs["t"]
    if t == "num_int":
        return Number(int(vs["v"]), dom[1])
    if t == "py_int":
        return int(vs["v"])
    if t == "tensor_int":
        return Tensor(dec(vs["data"], dtype=int), OrderedDict((n, Bint[int(s)]) for n, s in vs["inputs"]), dom[1])
    if t == "slice":
        return Slice(vs["name"], int(vs["start"]), int(vs["stop"]), int(vs["step"]), dom[1])
    if t == "var":
        return Variable(vs["name"], dom_to_funsor(dom))
    if t == "str":
        return vs["name"]
    if t == "num_real":
        return Number(float(vs["v"]))
    if t == "py_float":
        return float(vs["v"])
    if t == "tensor_real":
        return Tensor(dec(vs["data"]), OrderedDict((n, Bint[int(s)]) for n, s in vs["inputs"]))
    if t == "affine":
        return ex_build(vs["expr"])
    raise ValueError(t)


def val_eval(vs, p):
    t = vs["t"]
    if t in ("num_int", "py_int"):
        return int(vs["v"])
    if t == "tensor_int":
        return int(dec(vs["data"], dtype=int)[tuple(int(p[n]) for n, _ in vs["inputs"])])
    if t == "slice":
        return int(vs["start"]) + int(vs["step"]) * int(p[vs["name"]])
    if t in ("var", "str"):
        return p[vs["name"]]
    if t in ("num_real", "py_float"):
        return np.asarray(float(vs["v"]))
    if t == "tensor_real":
        return dec(vs["data"])[tuple(int(p[n]) for n, _ in vs["inputs"])]
    if t == "affine":
        return ex_eval(vs["expr"], p)
    raise ValueError(t)


def val_inputs(vs, dom):
    t = vs["t"]
    if t in ("tensor_int", "tensor_real"):
        return OrderedDict((n, ("int", int(s))) for n, s in vs["inputs"])
    if t == "slice":
        n = len(range(int(vs["start"]), int(vs["stop"]), int(vs["step"])))
        return OrderedDict([(vs["name"], ("int", n))])
    if t in ("var", "str"):
        return OrderedDict([(vs["name"], dom)])
    if t == "affine":
        return ex_inputs(vs["expr"])
    return OrderedDict()


def val_branch(vs):
    """name of the Gaussian.eager_subs branch the value is meant to exercise"""
    t = vs["t"]
    if t in ("var", "str"):
        return "var"
    if t in ("num_int", "py_int", "tensor_int", "slice"):
        return "int"
    if t in ("num_real", "py_float", "tensor_real"):
        return "real"
    return "affine"


# ------------------------------------------------------------------------------------------------
# steps: funsor action + oracle action


def build_leaf(leaf):
    inputs = OrderedDict((n, dom_to_funsor(d)) for n, d in leaf_inputs(leaf).items())
    kw = {k: dec(v) for k, v in leaf["args"].items()}
    wv = kw.pop("white_vec", None)
    ps = kw.pop("prec_sqrt", None)
    return Gaussian(wv, ps, inputs, **kw)


def build_tensor(tspec):
    return Tensor(dec(tspec["data"]), OrderedDict((n, Bint[int(s)]) for n, s in tspec["inputs"]))


def leaf_tags(leaf):
    keys = sorted(leaf["args"])
    li = leaf_inputs(leaf)
    D = sum(prod(d[1]) for d in li.values() if d[0] == "real")
    tags = ["ctor:" + "+".join(keys)]
    if "prec_sqrt" in leaf["args"]:
        r = leaf["args"]["prec_sqrt"]["s"][-1]
        tags.append("rank<dim" if r < D else ("rank=dim" if r == D else ("rank>2dim" if r > 2 * D else "rank>dim")))
        if r == 0:
            tags.append("rank=0")
    kinds = [d[0] for d in li.values()]
    if "int" in kinds and kinds != sorted(kinds):  # some real input precedes an int input
        tags.append("order:real-before-int")
    return tags


def orc_subs(O, subs):
    """simultaneous substitution"""
    new_inputs = OrderedDict((n, d) for n, d in O.inputs.items() if n not in subs)
    for n, vs in subs.items():
        for k, d in val_inputs(vs, O.inputs[n]).items():
            if k in new_inputs and new_inputs[k] != d:
                raise ValueError("generator produced inconsistent domains for " + k)
            new_inputs[k] = d

    def fn(p, O=O, subs=subs):
        q = {n: p[n] for n in O.inputs if n not in subs}
        for n, vs in subs.items():
            q[n] = val_eval(vs, p)
        return O(q)

    return Orc(new_inputs, fn)


def orc_add(A, B):
    inputs = OrderedDict(A.inputs)
    for n, d in B.inputs.items():
        if n in inputs and inputs[n] != d:
            raise ValueError("generator produced inconsistent domains for " + n)
        inputs[n] = d
    return Orc(inputs, lambda p: A(p) + B(p))


def orc_cat(name, part_name, parts):
    sizes = [o.inputs[part_name][1] for o in parts]
    inputs = OrderedDict()
    for o in parts:
        for n, d in o.inputs.items():
            if n != part_name:
                inputs[n] = d
    inputs[name] = ("int", sum(sizes))

    def fn(p):
        n = int(p[name])
        for o, s in zip(parts, sizes):
            if n < s:
                q = {k: p[k] for k in o.inputs if k != part_name}
                q[part_name] = n
                return o(q)
            n -= s
        raise AssertionError

    return Orc(inputs, fn)


def apply_step(F, O, step):
    """-> (F2, O2, contract, tags)"""
    op = step["op"]
    if op == "add":
        G = build_leaf(step["leaf"])
        OG = orc_leaf(step["leaf"])
        F2 = (G + F) if step.get("side") == "left" else (F + G)
        contract = "eager_add_gaussian_gaussian" if isinstance(F, Gaussian) and isinstance(G, Gaussian) else "add[Gaussian,other]"
        return F2, orc_add(O, OG), contract, ["add"] + leaf_tags(step["leaf"])
    if op == "add_tensor":
        T = build_tensor(step["tensor"])
        return F + T, orc_add(O, orc_tensor(step["tensor"])), "add[Gaussian,Tensor]", ["add_tensor"]
    if op == "subs":
        subs = step["subs"]
        kw = OrderedDict((n, val_build(vs, O.inputs[n])) for n, vs in subs.items())
        branches = sorted({val_branch(vs) for vs in subs.values()})
        tags = ["subs"] + ["subs:" + b for b in branches] + sorted({"val:" + vs["t"] for vs in subs.values()})
        for vs in subs.values():
            if vs["t"] == "affine":
                tags += sorted(ex_tags(vs["expr"]))
        contract = "Gaussian.eager_subs[" + "+".join(branches) + "]"
        F2 = F(**kw)
        return F2, orc_subs(O, subs), contract, tags
    if op == "align":
        names = tuple(step["names"])
        O2 = Orc(OrderedDict((n, O.inputs[n]) for n in list(names) + [k for k in O.inputs if k not in names]), O.fn)
        return F.align(names), O2, "Gaussian.align", ["align"]
    if op == "cat":
        others = [build_leaf(l) for l in step["others"]]
        oothers = [orc_leaf(l) for l in step["others"]]
        for i, t in enumerate(step.get("other_tensors", [])):
            if t is not None:
                others[i] = others[i] + build_tensor(t)
                oothers[i] = orc_add(oothers[i], orc_tensor(t))
        pos = step["pos"]
        parts = others[:pos] + [F] + others[pos:]
        oparts = oothers[:pos] + [O] + oothers[pos:]
        F2 = Cat(step["name"], tuple(parts), step["part_name"])
        tags = ["cat", "cat:rename" if step["name"] != step["part_name"] else "cat:same_name"]
        if any(t is not None for t in step.get("other_tensors", [])):
            tags.append("cat:mixture")
        return F2, orc_cat(step["name"], step["part_name"], oparts), "joint.eager_cat_homogeneous", tags
    if op == "compress_interp":
        from funsor.interpretations import compress_gaussians

        with compress_gaussians:
            F2 = reinterpret(F)
        return F2, O, "_compress_gaussians", ["compress_gaussians"]
    raise ValueError(op)


def fs_value(F, inputs, p):
    """evaluate the funsor at point p; -> float or None (stayed lazy)"""
    kw = {}
    for n, d in inputs.items():
        if n not in F.inputs:
            continue
        if d[0] == "int":
            kw[n] = Number(int(p[n]), d[1])
        else:
            kw[n] = Tensor(np.asarray(p[n], dtype=float))
    r = F(**kw) if kw else F
    if isinstance(r, (Tensor, Number)) and not r.inputs:
        return np.asarray(r.data, dtype=float)
    r = reinterpret(r)
    if isinstance(r, (Tensor, Number)) and not r.inputs:
        return np.asarray(r.data, dtype=float)
    return None


def fs_inputs(F):
    return {n: dom_of_funsor(d) for n, d in F.inputs.items()}


def rec(status, contract, tags, detail="", nontrivial=True):
    return dict(status=status, contract=contract, tags=list(tags), detail=detail, nontrivial=nontrivial)


def check_pointwise(F, O, contract, tags, rs, npoints, out, nontrivial=True, output_shape=()):
    """postcondition:  F.inputs == O.inputs (as name -> domain)  and  F(point) == O(point) at npoints points"""
    if not isinstance(F, Funsor):
        out.append(rec("fail", contract, tags + ["not_a_funsor"], "result is %r" % (type(F),)))
        return False
    fi = fs_inputs(F)
    oi = dict(O.inputs)
    if fi != oi:
        out.append(rec("fail", contract, tags + ["inputs"], "inputs of result %r != expected %r" % (fi, oi)))
        return False
    for k in range(npoints):
        p = rand_point(O.inputs, rs)
        try:
            v = fs_value(F, O.inputs, p)
        except NotImplementedError as e:
            out.append(rec("declined", contract, tags, "evaluation: NotImplementedError %s" % e))
            return True
        if v is None:
            out.append(rec("declined", contract, tags, "result stays lazy under evaluation at a full point"))
            return True
        w = O(p)
        if not close(v, w):
            pj = {n: (np.asarray(x).tolist()) for n, x in p.items()}
            out.append(rec("fail", contract, tags + ["value"], "at %r: funsor %r oracle %r" % (pj, np.asarray(v).tolist(), np.asarray(w).tolist())))
            return False
    out.append(rec("ok", contract, tags, nontrivial=nontrivial))
    return True


# ------------------------------------------------------------------------------------------------
# C12 cases


def case_chain(spec):
    """leaf, then ops; the postcondition is evaluated after the constructor and after every op."""
    out = []
    rs = np.random.RandomState(spec["pseed"])
    npts = spec.get("npoints", 5)
    th = spec.get("threshold", 2)
    th = math.inf if th == "inf" else th
    with Gaussian.set_compression_threshold(th):
        ltags = leaf_tags(spec["leaf"]) + (["threshold:%s" % th] if th != 2 else [])
        try:
            F = build_leaf(spec["leaf"])
        except Exception as e:  # the constructor may not raise on arguments satisfying its precondition
            out.append(rec("fail", "GaussianMeta.__call__", ltags + ["raises:" + type(e).__name__], "constructor raised %s: %s" % (type(e).__name__, e)))
            return out
        O = orc_leaf(spec["leaf"])
        ok = check_pointwise(F, O, "GaussianMeta.__call__", ltags, rs, npts, out)
        out[-1]["step"] = 0
        if not ok:
            return out
        for depth, step in enumerate(spec["ops"]):
            try:
                F2, O2, contract, tags = apply_step(F, O, step)
            except NotImplementedError as e:
                out.append(rec("declined", "step:" + step["op"], ltags, "NotImplementedError %s" % e))
                out[-1]["step"] = depth + 1
                return out
            except Exception as e:
                # a supported pointwise operation on a valid argument raised: no result to compare
                tags = step_tags_static(step, O)
                out.append(rec("fail", tags[0], ltags + tags[1] + ["raises:" + type(e).__name__, "depth:%d" % (depth + 1)], "%s: %s" % (type(e).__name__, e)))
                out[-1]["step"] = depth + 1
                return out
            tags = ltags + tags + ["depth:%d" % (depth + 1)]
            ok = check_pointwise(F2, O2, contract, tags, rs, npts, out)
            out[-1]["step"] = depth + 1
            if not ok:
                return out
            F, O = F2, O2
    return out


def step_tags_static(step, O):
    op = step["op"]
    if op == "subs":
        branches = sorted({val_branch(vs) for vs in step["subs"].values()})
        tags = ["subs"] + ["subs:" + b for b in branches] + sorted({"val:" + vs["t"] for vs in step["subs"].values()})
        for vs in step["subs"].values():
            if vs["t"] == "affine":
                tags += sorted(ex_tags(vs["expr"]))
        return "Gaussian.eager_subs[" + "+".join(branches) + "]", tags
    if op == "add":
        return "eager_add_gaussian_gaussian", ["add"] + leaf_tags(step["leaf"])
    if op == "cat":
        return "joint.eager_cat_homogeneous", ["cat", "cat:rename" if step["name"] != step["part_name"] else "cat:same_name"]
    if op == "align":
        return "Gaussian.align", ["align"]
    return "step:" + op, [op]


def case_compress_rank(spec):
    """contract of gaussian._compress_rank(white_vec, prec_sqrt, assume_full_rank): the returned
    (white_vec', prec_sqrt', shift) satisfies  -1/2|x S - w|^2 == -1/2|x S' - w'|^2 + shift  for all x,
    and S' is (dim, dim)."""
    from funsor.gaussian import _compress_rank

    out = []
    rs = np.random.RandomState(spec["pseed"])
    w = dec(spec["white_vec"])
    S = dec(spec["prec_sqrt"])
    mode = bool(spec["assume_full_rank"])
    contract = "_compress_rank[%s]" % ("cholesky" if mode else "qr")
    dim, rank = S.shape[-2:]
    tags = ["compress_rank", "mode:" + ("cholesky" if mode else "qr"), "rank=dim" if rank == dim else "rank>dim"]
    w0, S0 = w.copy(), S.copy()
    try:
        w2, S2, shift = _compress_rank(w, S, assume_full_rank=mode)
    except Exception as e:
        out.append(rec("fail", contract, tags + ["raises:" + type(e).__name__], "%s: %s" % (type(e).__name__, e)))
        return out
    if not (np.array_equal(w0, w) and np.array_equal(S0, S)):
        out.append(rec("fail", contract, tags + ["frame"], "argument arrays were modified"))
        return out
    if S2.shape != S.shape[:-2] + (dim, dim) or w2.shape != w.shape[:-1] + (dim,) or np.shape(shift) != w.shape[:-1]:
        out.append(rec("fail", contract, tags + ["shape"], "shapes %r %r %r" % (S2.shape, w2.shape, np.shape(shift))))
        return out
    for b in np.ndindex(*w.shape[:-1]):
        for k in range(spec.get("npoints", 5)):
            x = rs.randn(dim)
            lhs = -0.5 * float(np.sum((x @ S[b] - w[b]) ** 2))
            rhs = -0.5 * float(np.sum((x @ S2[b] - w2[b]) ** 2)) + float(np.asarray(shift)[b])
            if not close(lhs, rhs):
                out.append(rec("fail", contract, tags + ["value"], "batch %r x=%r: original %r compressed %r" % (b, x.tolist(), lhs, rhs)))
                return out
    out.append(rec("ok", contract, tags))
    return out


def case_extract_affine(spec):
    """contract of affine.extract_affine(fn):  fn(point) == const(point) + sum_k einsum(eqn_k, coeff_k(point), x_k),
    keys(coeffs) == affine_inputs(fn), const / coeffs do not depend on the affine inputs."""
    from funsor.affine import affine_inputs, extract_affine

    out = []
    rs = np.random.RandomState(spec["pseed"])
    e = spec["expr"]
    tags = ["extract_affine"] + sorted(ex_tags(e))
    contract = "affine.extract_affine"
    inputs = ex_inputs(e)
    try:
        fn = ex_build(e)
        const, coeffs = extract_affine(fn)
        aff = affine_inputs(fn)
    except NotImplementedError as ex:
        out.append(rec("declined", contract, tags, str(ex)))
        return out
    except Exception as ex:
        out.append(rec("fail", contract, tags + ["raises:" + type(ex).__name__], "%s: %s" % (type(ex).__name__, ex)))
        return out
    reals = {n for n, d in inputs.items() if d[0] == "real"}
    if set(coeffs) != set(aff):
        out.append(rec("fail", contract, tags + ["keys"], "coeff keys %r != affine_inputs %r" % (sorted(coeffs), sorted(aff))))
        return out
    if spec.get("expect_all_affine", True) and set(aff) != reals:
        # incompleteness of the affine test is allowed ("sound but incomplete"): the decomposition below then
        # still has to hold with the non-affine inputs left inside const/coeffs; we only note it.
        tags = tags + ["incomplete_affine_inputs"]
    for n in list(coeffs):
        if any(k in aff for k in coeffs[n][0].inputs) or any(k in aff for k in const.inputs):
            out.append(rec("fail", contract, tags + ["const_depends_on_affine_input"], "const/coeff mention an affine input"))
            return out
    for k in range(spec.get("npoints", 5)):
        p = rand_point(inputs, rs)
        want = ex_eval(e, p)
        rest = OrderedDict((n, d) for n, d in inputs.items() if n not in aff)
        cv = fs_value(const, rest, p)
        if cv is None:
            out.append(rec("declined", contract, tags, "const stays lazy"))
            return out
        got = np.array(cv, dtype=float)
        for n, (coeff, eqn) in coeffs.items():
            cf = fs_value(coeff, rest, p)
            if cf is None:
                out.append(rec("declined", contract, tags, "coeff stays lazy"))
                return out
            got = got + np.einsum(eqn, cf, np.asarray(p[n], dtype=float))
        if not close(got, want):
            out.append(rec("fail", contract, tags + ["value"], "point %r: reconstructed %r expected %r" % ({n: np.asarray(x).tolist() for n, x in p.items()}, np.asarray(got).tolist(), np.asarray(want).tolist())))
            return out
    out.append(rec("ok", contract, tags))
    return out


CASES = {
    "chain": case_chain,
    "compress_rank": case_compress_rank,
    "extract_affine": case_extract_affine,
}


def run_case(spec):
    np.random.seed(spec.get("npseed", 0))
    return CASES[spec["kind"]](spec)
