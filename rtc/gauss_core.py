"""gauss_core: spec interpreter shared by drv_gauss (C12, C13, C14) and by its replay scripts.

A *case* is a plain-data ``spec`` (dicts / lists / ints / floats / strings only).  ``run_case(spec)``
rebuilds the funsor input from the spec, drives the REAL funsor code, evaluates the postcondition of the
contract against the naive oracle below and returns a list of outcome records

    dict(status="ok"|"fail"|"declined", contract=..., tags=[...], detail=..., nontrivial=bool)

The oracle never calls funsor: a Gaussian leaf is the dense triple (P, eta, c) per batch element assembled
with plain numpy from the raw constructor arguments, an oracle value is a python closure from a *point*
(dict name -> int | ndarray) to a float, and every operation is defined pointwise on closures.

The module is self-contained apart from ``close`` (the fixed tolerance of rtc/common.py); replay scripts
are built by ``drv_gauss.make_replay`` as  <source of close> + <this source> + <spec literal>.
"""
import itertools
import math
import sys
from collections import OrderedDict

import numpy as np

sys.path.insert(0, __import__("os").environ.get("VERIF_REPO", "/repo"))  # REPLAY-KEEP
from common import close  # REPLAY-STRIP

import funsor
import funsor.ops as ops
from funsor.delta import Delta
from funsor.domains import Bint, Real, Reals
from funsor.gaussian import Gaussian
from funsor.integrate import Integrate
from funsor.interpreter import reinterpret
from funsor.tensor import Tensor
from funsor.terms import Cat, Funsor, Number, Slice, Variable

funsor.set_backend("numpy")

LOG2PI = math.log(2 * math.pi)


# ------------------------------------------------------------------------------------------------
# plain-data encoding of arrays


def enc(a):
    a = np.asarray(a)
    return {"s": list(a.shape), "d": [x.item() for x in a.reshape(-1)]}


_DEC = {}


def dec(e, dtype=float):
    key = (id(e), dtype)
    hit = _DEC.get(key)
    if hit is not None and hit[0] is e:
        return hit[1]
    a = np.array(e["d"], dtype=dtype).reshape(tuple(e["s"]))
    a.setflags(write=False)
    if len(_DEC) > 4096:
        _DEC.clear()
    _DEC[key] = (e, a)
    return a


def prod(shape):
    r = 1
    for s in shape:
        r *= int(s)
    return r


# ------------------------------------------------------------------------------------------------
# oracle values


class Orc:
    """Oracle value: ``inputs`` maps name -> ("int", size) | ("real", shape); ``fn`` maps a point to a float."""

    def __init__(self, inputs, fn):
        self.inputs = OrderedDict(inputs)
        self.fn = fn

    def __call__(self, p):
        return self.fn(p)


def dom_to_funsor(d):
    return Bint[d[1]] if d[0] == "int" else Reals[tuple(d[1])]


def dom_of_funsor(d):
    if d.dtype == "real":
        return ("real", tuple(d.shape))
    return ("int", int(d.dtype))


def leaf_inputs(leaf):
    out = OrderedDict()
    for name, kind, s in leaf["inputs"]:
        out[name] = ("int", int(s)) if kind == "int" else ("real", tuple(s))
    return out


def dense_leaf(leaf):
    """(int_names, real_names, P, eta, c): the dense quadratic form  -1/2 x'Px + x'eta + c  per batch
    element, x = concatenation of the flattened real inputs in declaration order.  Plain numpy."""
    inputs = leaf_inputs(leaf)
    ints = [(n, d[1]) for n, d in inputs.items() if d[0] == "int"]
    reals = [(n, d[1]) for n, d in inputs.items() if d[0] == "real"]
    bshape = tuple(s for _, s in ints)
    D = sum(prod(s) for _, s in reals)
    args = {k: dec(v) for k, v in leaf["args"].items()}
    P = np.zeros(bshape + (D, D))
    eta = np.zeros(bshape + (D,))
    c = np.zeros(bshape)
    for b in np.ndindex(*bshape):
        if "prec_sqrt" in args:
            S = args["prec_sqrt"][b]
            Pb = S @ S.T
        elif "precision" in args:
            Pb = args["precision"][b]
        elif "covariance" in args:
            Pb = np.linalg.inv(args["covariance"][b])
        elif "scale_tril" in args:
            L = args["scale_tril"][b]
            Pb = np.linalg.inv(L @ L.T)
        else:
            raise ValueError("no scale parameter")
        if "white_vec" in args:
            w = args["white_vec"][b]
            S = args["prec_sqrt"][b]
            eb = S @ w
            cb = -0.5 * float(w @ w)
        elif "mean" in args:
            m = args["mean"][b]
            eb = Pb @ m
            cb = -0.5 * float(m @ Pb @ m)
        elif "info_vec" in args:
            eb = args["info_vec"][b]
            cb = -0.5 * float(eb @ np.linalg.solve(Pb, eb))
        else:
            raise ValueError("no location parameter")
        P[b] = 0.5 * (Pb + Pb.T)
        eta[b] = eb
        c[b] = cb
    return ints, reals, P, eta, c


def flat_point(reals, p):
    parts = [np.asarray(p[n], dtype=float).reshape(-1) for n, _ in reals]
    return np.concatenate(parts) if parts else np.zeros(0)


def orc_dense(ints, reals, P, eta, c):
    inputs = OrderedDict()
    for n, s in ints:
        inputs[n] = ("int", s)
    for n, s in reals:
        inputs[n] = ("real", tuple(s))

    def fn(p):
        b = tuple(int(p[n]) for n, _ in ints)
        x = flat_point(reals, p)
        return float(-0.5 * x @ P[b] @ x + x @ eta[b] + c[b])

    return Orc(inputs, fn)


def orc_leaf(leaf):
    ints, reals, P, eta, c = dense_leaf(leaf)
    o = orc_dense(ints, reals, P, eta, c)
    # keep the declaration order of the leaf (order is irrelevant to the contract; names -> domains is)
    o.inputs = leaf_inputs(leaf)
    return o


def orc_tensor(tspec):
    data = dec(tspec["data"])
    names = [(n, int(s)) for n, s in tspec["inputs"]]

    def fn(p):
        return float(data[tuple(int(p[n]) for n, _ in names)])

    return Orc(OrderedDict((n, ("int", s)) for n, s in names), fn)


def rand_point(inputs, rs):
    p = {}
    for n, d in inputs.items():
        if d[0] == "int":
            p[n] = int(rs.randint(d[1]))
        else:
            p[n] = rs.randn(*d[1]) if d[1] else np.asarray(rs.randn())
    return p


# ------------------------------------------------------------------------------------------------
# affine / value expressions: own numpy evaluator + funsor builder


def ex_eval(e, p):
    t = e[0]
    if t == "var":
        return np.asarray(p[e[1]], dtype=float)
    if t == "const":
        a = dec(e[1])
        idx = tuple(int(p[n]) for n, _ in e[2])
        return a[idx]
    if t == "add":
        return ex_eval(e[1], p) + ex_eval(e[2], p)
    if t == "sub":
        return ex_eval(e[1], p) - ex_eval(e[2], p)
    if t == "mul":
        return ex_eval(e[1], p) * ex_eval(e[2], p)
    if t == "div":
        return ex_eval(e[1], p) / ex_eval(e[2], p)
    if t == "neg":
        return -ex_eval(e[1], p)
    if t == "getitem":
        return ex_eval(e[1], p)[e[2]]
    if t == "sum":
        return np.asarray(ex_eval(e[1], p).sum())
    if t == "reshape":
        return ex_eval(e[1], p).reshape(tuple(e[2]))
    if t == "matmul":
        return ex_eval(e[1], p) @ ex_eval(e[2], p)
    if t == "exp":
        return np.exp(ex_eval(e[1], p))
    if t == "logsumexp":  # over the entries of a vector-valued expression (a lazy reduction over an index)
        v = ex_eval(e[1], p)
        return np.asarray(np.logaddexp.reduce(v.reshape(-1)))
    raise ValueError(t)


def ex_inputs(e, out=None):
    out = OrderedDict() if out is None else out
    t = e[0]
    if t == "var":
        out[e[1]] = ("real", tuple(e[2]))
    elif t == "const":
        for n, s in e[2]:
            out[n] = ("int", int(s))
    else:
        for a in e[1:]:
            if isinstance(a, list) and a and isinstance(a[0], str) and a[0] in EX_HEADS:
                ex_inputs(a, out)
    return out


EX_HEADS = {"var", "const", "add", "sub", "mul", "div", "neg", "getitem", "sum", "reshape", "matmul", "exp", "logsumexp"}


def ex_build(e):
    t = e[0]
    if t == "var":
        return Variable(e[1], Reals[tuple(e[2])])
    if t == "const":
        return Tensor(dec(e[1]), OrderedDict((n, Bint[int(s)]) for n, s in e[2]))
    if t == "add":
        return ex_build(e[1]) + ex_build(e[2])
    if t == "sub":
        return ex_build(e[1]) - ex_build(e[2])
    if t == "mul":
        return ex_build(e[1]) * ex_build(e[2])
    if t == "div":
        return ex_build(e[1]) / ex_build(e[2])
    if t == "neg":
        return -ex_build(e[1])
    if t == "getitem":
        return ex_build(e[1])[e[2]]
    if t == "sum":
        return ex_build(e[1]).sum()
    if t == "reshape":
        return ex_build(e[1]).reshape(tuple(e[2]))
    if t == "matmul":
        return ex_build(e[1]) @ ex_build(e[2])
    if t == "exp":
        return ex_build(e[1]).exp()
    if t == "logsumexp":
        v = ex_build(e[1])
        n = v.output.shape[0]
        i = Variable("_lse_i", Bint[n])
        return v[i].reduce(ops.logaddexp, "_lse_i")
    raise ValueError(t)


def ex_tags(e, out=None):
    out = set() if out is None else out
    out.add("expr:" + e[0])
    for a in e[1:]:
        if isinstance(a, list) and a and isinstance(a[0], str) and a[0] in EX_HEADS:
            ex_tags(a, out)
    return out


# ------------------------------------------------------------------------------------------------
# substitution values


def val_build(vs, dom):
    t = vs["t"]
    if t == "num_int":
        return Number(int(vs["v"]), dom[1])
    if t == "py_int":
        return int(vs["v"])
    if t == "tensor_int":
        return Tensor(dec(vs["data"], dtype=int), OrderedDict((n, Bint[int(s)]) for n, s in vs["inputs"]), dom[1])
    if t == "slice":
        return Slice(vs["name"], int(vs["start"]), int(vs["stop"]), int(vs["step"]), dom[1])
    if t == "var":
        return Variable(vs["name"], dom_to_funsor(dom))
    if t == "str":
        return vs["name"]
    if t == "num_real":
        return Number(float(vs["v"]))
    if t == "py_float":
        return float(vs["v"])
    if t == "tensor_real":
        return Tensor(dec(vs["data"]), OrderedDict((n, Bint[int(s)]) for n, s in vs["inputs"]))
    if t == "affine":
        return ex_build(vs["expr"])
    raise ValueError(t)


def val_eval(vs, p):
    t = vs["t"]
    if t in ("num_int", "py_int"):
        return int(vs["v"])
    if t == "tensor_int":
        return int(dec(vs["data"], dtype=int)[tuple(int(p[n]) for n, _ in vs["inputs"])])
    if t == "slice":
        return int(vs["start"]) + int(vs["step"]) * int(p[vs["name"]])
    if t in ("var", "str"):
        return p[vs["name"]]
    if t in ("num_real", "py_float"):
        return np.asarray(float(vs["v"]))
    if t == "tensor_real":
        return dec(vs["data"])[tuple(int(p[n]) for n, _ in vs["inputs"])]
    if t == "affine":
        return ex_eval(vs["expr"], p)
    raise ValueError(t)


def val_inputs(vs, dom):
    t = vs["t"]
    if t in ("tensor_int", "tensor_real"):
        return OrderedDict((n, ("int", int(s))) for n, s in vs["inputs"])
    if t == "slice":
        n = len(range(int(vs["start"]), int(vs["stop"]), int(vs["step"])))
        return OrderedDict([(vs["name"], ("int", n))])
    if t in ("var", "str"):
        return OrderedDict([(vs["name"], dom)])
    if t == "affine":
        return ex_inputs(vs["expr"])
    return OrderedDict()


def val_branch(vs):
    """name of the Gaussian.eager_subs branch the value is meant to exercise"""
    t = vs["t"]
    if t in ("var", "str"):
        return "var"
    if t in ("num_int", "py_int", "tensor_int", "slice"):
        return "int"
    if t in ("num_real", "py_float", "tensor_real"):
        return "real"
    return "affine"


# ------------------------------------------------------------------------------------------------
# steps: funsor action + oracle action


def build_leaf(leaf):
    inputs = OrderedDict((n, dom_to_funsor(d)) for n, d in leaf_inputs(leaf).items())
    kw = {k: dec(v) for k, v in leaf["args"].items()}
    wv = kw.pop("white_vec", None)
    ps = kw.pop("prec_sqrt", None)
    return Gaussian(wv, ps, inputs, **kw)


def build_tensor(tspec):
    return Tensor(dec(tspec["data"]), OrderedDict((n, Bint[int(s)]) for n, s in tspec["inputs"]))


def leaf_tags(leaf):
    keys = sorted(leaf["args"])
    li = leaf_inputs(leaf)
    D = sum(prod(d[1]) for d in li.values() if d[0] == "real")
    tags = ["ctor:" + "+".join(keys)]
    if "prec_sqrt" in leaf["args"]:
        r = leaf["args"]["prec_sqrt"]["s"][-1]
        tags.append("rank<dim" if r < D else ("rank=dim" if r == D else ("rank>2dim" if r > 2 * D else "rank>dim")))
        if r == 0:
            tags.append("rank=0")
    kinds = [d[0] for d in li.values()]
    if "int" in kinds and kinds != sorted(kinds):  # some real input precedes an int input
        tags.append("order:real-before-int")
    return tags


def orc_subs(O, subs):
    """simultaneous substitution"""
    new_inputs = OrderedDict((n, d) for n, d in O.inputs.items() if n not in subs)
    for n, vs in subs.items():
        for k, d in val_inputs(vs, O.inputs[n]).items():
            if k in new_inputs and new_inputs[k] != d:
                raise ValueError("generator produced inconsistent domains for " + k)
            new_inputs[k] = d

    def fn(p, O=O, subs=subs):
        q = {n: p[n] for n in O.inputs if n not in subs}
        for n, vs in subs.items():
            q[n] = val_eval(vs, p)
        return O(q)

    return Orc(new_inputs, fn)


def orc_add(A, B):
    inputs = OrderedDict(A.inputs)
    for n, d in B.inputs.items():
        if n in inputs and inputs[n] != d:
            raise ValueError("generator produced inconsistent domains for " + n)
        inputs[n] = d
    return Orc(inputs, lambda p: A(p) + B(p))


def orc_cat(name, part_name, parts):
    sizes = [o.inputs[part_name][1] for o in parts]
    inputs = OrderedDict()
    for o in parts:
        for n, d in o.inputs.items():
            if n != part_name:
                inputs[n] = d
    inputs[name] = ("int", sum(sizes))

    def fn(p):
        n = int(p[name])
        for o, s in zip(parts, sizes):
            if n < s:
                q = {k: p[k] for k in o.inputs if k != part_name}
                q[part_name] = n
                return o(q)
            n -= s
        raise AssertionError

    return Orc(inputs, fn)


def orc_step(O, step):
    """the oracle side of a step (no funsor)"""
    op = step["op"]
    if op == "add":
        return orc_add(O, orc_leaf(step["leaf"]))
    if op == "add_tensor":
        return orc_add(O, orc_tensor(step["tensor"]))
    if op == "subs":
        return orc_subs(O, step["subs"])
    if op == "align":
        names = list(step["names"])
        return Orc(OrderedDict((n, O.inputs[n]) for n in names + [k for k in O.inputs if k not in names]), O.fn)
    if op == "cat":
        oothers = [orc_leaf(l) for l in step["others"]]
        for i, t in enumerate(step.get("other_tensors", [])):
            if t is not None:
                oothers[i] = orc_add(oothers[i], orc_tensor(t))
        pos = step["pos"]
        return orc_cat(step["name"], step["part_name"], oothers[:pos] + [O] + oothers[pos:])
    if op == "compress_interp":
        return O
    raise ValueError(op)


def step_tags_static(step):
    op = step["op"]
    if op == "subs":
        branches = sorted({val_branch(vs) for vs in step["subs"].values()})
        tags = ["subs"] + ["subs:" + b for b in branches] + sorted({"val:" + vs["t"] for vs in step["subs"].values()}) + (["how:" + step["how"]] if step.get("how") else [])
        for vs in step["subs"].values():
            if vs["t"] == "affine":
                tags += sorted(ex_tags(vs["expr"]))
        return "Gaussian.eager_subs[" + "+".join(branches) + "]", tags
    if op == "add":
        return "eager_add_gaussian_gaussian", ["add"] + ["rhs_" + t for t in leaf_tags(step["leaf"])]
    if op == "add_tensor":
        return "add[Gaussian,Tensor]", ["add_tensor"]
    if op == "cat":
        tags = ["cat", "cat:rename" if step["name"] != step["part_name"] else "cat:same_name"]
        if any(t is not None for t in step.get("other_tensors", [])):
            tags.append("cat:mixture")
        return "joint.eager_cat_homogeneous", tags
    if op == "align":
        return "Gaussian.align", ["align"]
    if op == "compress_interp":
        return "_compress_gaussians", ["compress_gaussians"]
    return "step:" + op, [op]


def apply_step(F, O, step):
    """the funsor side of a step, on the REAL code -> F2"""
    op = step["op"]
    if op == "add":
        G = build_leaf(step["leaf"])
        return (G + F) if step.get("side") == "left" else (F + G)
    if op == "add_tensor":
        return F + build_tensor(step["tensor"])
    if op == "subs":
        kw = OrderedDict((n, val_build(vs, O.inputs[n])) for n, vs in step["subs"].items())
        how = step.get("how")
        if not isinstance(F, Gaussian):
            how = None  # the explicit-order / lazily chained variants are contracts of Gaussian.eager_subs only
        if how == "reversed":
            from funsor.terms import Subs, to_funsor

            return Subs(F, tuple((k, to_funsor(v, F.inputs[k])) for k, v in reversed(list(kw.items()))))
        if how == "chained":
            from funsor.interpretations import lazy

            with lazy:
                t = F
                for k, v in reversed(list(kw.items())):
                    t = t(**{k: v})
            return reinterpret(t)
        return F(**kw)
    if op == "align":
        return F.align(tuple(step["names"]))
    if op == "cat":
        others = [build_leaf(l) for l in step["others"]]
        for i, t in enumerate(step.get("other_tensors", [])):
            if t is not None:
                others[i] = others[i] + build_tensor(t)
        pos = step["pos"]
        return Cat(step["name"], tuple(others[:pos] + [F] + others[pos:]), step["part_name"])
    if op == "compress_interp":
        from funsor.interpretations import compress_gaussians

        with compress_gaussians:
            return reinterpret(F)
    raise ValueError(op)


def fs_value(F, inputs, p):
    """evaluate the funsor at point p; -> float or None (stayed lazy)"""
    kw = {}
    for n, d in inputs.items():
        if n not in F.inputs:
            continue
        if d[0] == "int":
            kw[n] = Number(int(p[n]), d[1])
        else:
            kw[n] = Tensor(np.asarray(p[n], dtype=float))
    r = F(**kw) if kw else F
    if isinstance(r, (Tensor, Number)) and not r.inputs:
        return np.asarray(r.data, dtype=float)
    r = reinterpret(r)
    if isinstance(r, (Tensor, Number)) and not r.inputs:
        return np.asarray(r.data, dtype=float)
    return None


def fs_inputs(F):
    return {n: dom_of_funsor(d) for n, d in F.inputs.items()}


def rec(status, contract, tags, detail="", nontrivial=True):
    return dict(status=status, contract=contract, tags=list(tags), detail=detail, nontrivial=nontrivial)


def fs_values(F, inputs, points):
    """evaluate the funsor at all points with ONE substitution (the points are stacked along a fresh batch
    input "_p"); -> array of len(points) or None"""
    N = len(points)
    pin = OrderedDict([("_p", Bint[N])])
    kw = {}
    for n, d in inputs.items():
        if n not in F.inputs:
            continue
        if d[0] == "int":
            kw[n] = Tensor(np.array([int(p[n]) for p in points]), pin, d[1])
        else:
            kw[n] = Tensor(np.stack([np.asarray(p[n], dtype=float) for p in points]), pin)
    r = F(**kw) if kw else F
    if not isinstance(r, (Tensor, Number)):
        r = reinterpret(r)
    if isinstance(r, Number):
        return np.full(N, float(r.data))
    if isinstance(r, Tensor):
        if not r.inputs:
            return np.broadcast_to(np.asarray(r.data, dtype=float), (N,) + tuple(r.output.shape)).copy()
        if tuple(r.inputs) == ("_p",):
            return np.asarray(r.data, dtype=float)
    return None


def fmt_point(p):
    return {n: (np.asarray(x).tolist()) for n, x in p.items()}


def check_pointwise(F, O, contract, tags, rs, npoints, out, nontrivial=True, out_shape=(), points=None):
    """postcondition:  F.inputs == O.inputs (as name -> domain)  and  F(point) == O(point) at npoints points.
    The points are evaluated with one stacked substitution; on a mismatch (or if that stays lazy) they are
    re-evaluated one by one so that the report names a single point."""
    if not isinstance(F, Funsor):
        out.append(rec("fail", contract, tags + ["not_a_funsor"], "result is %r" % (type(F),)))
        return False
    fi = fs_inputs(F)
    oi = dict(O.inputs)
    # an evaluated result may omit inputs its value does not depend on (the pointwise comparison below, at points over
    # all expected inputs, then shows the independence); it may not have extra or re-typed inputs
    if any(k not in oi or oi[k] != v for k, v in fi.items()):
        out.append(rec("fail", contract, tags + ["inputs"], "inputs of result %r not among expected %r" % (fi, oi)))
        return False
    if F.output != Reals[tuple(out_shape)]:
        out.append(rec("fail", contract, tags + ["output"], "output of result %r != %r" % (F.output, Reals[tuple(out_shape)])))
        return False
    points = [rand_point(O.inputs, rs) for _ in range(npoints)] if points is None else points
    npoints = len(points)
    want = np.array([np.asarray(O(p), dtype=float) for p in points]).reshape((npoints,) + tuple(out_shape))
    got = None
    stacked_exc = None
    try:
        got = fs_values(F, O.inputs, points)
    except Exception as e:
        stacked_exc = e
    # nontrivial rule: the expected values are not all equal (or, for a result without inputs, not zero)
    nontrivial = bool(np.any(np.ptp(want, axis=0) > 1e-9)) if O.inputs else bool(np.any(np.abs(want[0]) > 1e-12))
    if got is not None and close(got, want):
        out.append(rec("ok", contract, tags, nontrivial=nontrivial))
        return True
    for p, w in zip(points, want):
        try:
            v = fs_value(F, O.inputs, p)
        except NotImplementedError as e:
            out.append(rec("declined", contract, tags, "evaluation: NotImplementedError %s" % e))
            return True
        except Exception as e:
            out.append(rec("fail", contract, tags + ["eval_raises:" + type(e).__name__], "evaluating the result at %r raised %s: %s" % (fmt_point(p), type(e).__name__, e)))
            return False
        if v is None:
            out.append(rec("declined", contract, tags, "result stays lazy under evaluation at a full point"))
            return True
        if not close(v, w):
            out.append(rec("fail", contract, tags + ["value"], "at %r: funsor %r oracle %r" % (fmt_point(p), np.asarray(v).tolist(), np.asarray(w).tolist())))
            return False
    if stacked_exc is not None:
        out.append(rec("fail", contract, tags + ["eval_stacked", "eval_raises:" + type(stacked_exc).__name__], "pointwise evaluation agrees with the oracle but substituting the %d points stacked along a batch input raised %s: %s" % (npoints, type(stacked_exc).__name__, stacked_exc)))
        return False
    if got is not None:
        out.append(rec("fail", contract, tags + ["eval_stacked", "value"], "pointwise evaluation agrees with the oracle but the stacked substitution gives %r, oracle %r at %r" % (np.asarray(got).tolist(), want.tolist(), [fmt_point(p) for p in points])))
        return False
    out.append(rec("ok", contract, tags + ["stacked_eval_lazy"], nontrivial=nontrivial))
    return True


# ------------------------------------------------------------------------------------------------
# C12 cases


def case_chain(spec):
    """leaf, then ops; the postcondition is evaluated after the constructor and after every op."""
    out = []
    rs = np.random.RandomState(spec["pseed"])
    npts = spec.get("npoints", 5)
    th = spec.get("threshold", 2)
    th = math.inf if th == "inf" else th
    with Gaussian.set_compression_threshold(th):
        ltags = leaf_tags(spec["leaf"]) + (["threshold:%s" % th] if th != 2 else [])
        try:
            F = build_leaf(spec["leaf"])
        except Exception as e:  # the constructor may not raise on arguments satisfying its precondition
            out.append(rec("fail", "GaussianMeta.__call__", ltags + ["raises:" + type(e).__name__], "constructor raised %s: %s" % (type(e).__name__, e)))
            return out
        O = orc_leaf(spec["leaf"])
        if spec.get("check_leaf", True):
            ok = check_pointwise(F, O, "GaussianMeta.__call__", ltags, rs, npts, out)
            out[-1]["step"] = 0
            if not ok:
                return out
        for depth, step in enumerate(spec["ops"]):
            contract, stags = step_tags_static(step)
            tags = ltags + stags + ["depth:%d" % (depth + 1)]
            # earlier operations of the chain (a defect of an earlier step can surface later, e.g. when a lazy Cat is re-evaluated)
            tags += sorted({"prev:" + step_tags_static(st)[1][0] for st in spec["ops"][:depth]})
            if not isinstance(F, Gaussian):
                tags.append("lhs:" + type(F).__name__.split("[")[0])
            if step["op"] == "subs" and type(F).__name__.split("[")[0] == "Cat":
                # a value that mentions the name a lazy Cat introduces: the root cause recorded as the known finding
                # fresh-name-captures-value-input (substitute() rebuilds the node before substituting its own fresh name)
                mentioned = set()
                for n_, vs in step["subs"].items():
                    mentioned |= set(val_inputs(vs, O.inputs[n_]))
                if F.name in mentioned:
                    tags.append("subs-value-mentions-cat-name")
            O2 = orc_step(O, step)
            try:
                F2 = apply_step(F, O, step)
            except NotImplementedError as e:
                out.append(rec("declined", contract, tags, "NotImplementedError %s" % e))
                out[-1]["step"] = depth + 1
                return out
            except Exception as e:
                # a supported pointwise operation on a valid argument raised: there is no result to compare
                import traceback

                where = " | ".join("%s:%d %s" % (fr.filename.split("/repo/")[-1], fr.lineno, fr.name) for fr in traceback.extract_tb(e.__traceback__)[-6:])
                out.append(rec("fail", contract, tags + ["raises:" + type(e).__name__], "%s: %s [%s]" % (type(e).__name__, e, where)))
                out[-1]["step"] = depth + 1
                return out
            ok = check_pointwise(F2, O2, contract, tags, rs, npts, out)
            out[-1]["step"] = depth + 1
            if not ok:
                return out
            F, O = F2, O2
    return out


def case_compress_rank(spec):
    """contract of gaussian._compress_rank(white_vec, prec_sqrt, assume_full_rank): the returned
    (white_vec', prec_sqrt', shift) satisfies  -1/2|x S - w|^2 == -1/2|x S' - w'|^2 + shift  for all x,
    and S' is (dim, dim)."""
    from funsor.gaussian import _compress_rank

    out = []
    rs = np.random.RandomState(spec["pseed"])
    w = dec(spec["white_vec"])
    S = dec(spec["prec_sqrt"])
    mode = bool(spec["assume_full_rank"])
    contract = "_compress_rank[%s]" % ("cholesky" if mode else "qr")
    dim, rank = S.shape[-2:]
    tags = ["compress_rank", "mode:" + ("cholesky" if mode else "qr"), "rank=dim" if rank == dim else "rank>dim"]
    w0, S0 = w.copy(), S.copy()
    try:
        w2, S2, shift = _compress_rank(w, S, assume_full_rank=mode)
    except Exception as e:
        out.append(rec("fail", contract, tags + ["raises:" + type(e).__name__], "%s: %s" % (type(e).__name__, e)))
        return out
    if not (np.array_equal(w0, w) and np.array_equal(S0, S)):
        out.append(rec("fail", contract, tags + ["frame"], "argument arrays were modified"))
        return out
    if S2.shape != S.shape[:-2] + (dim, dim) or w2.shape != w.shape[:-1] + (dim,) or np.shape(shift) != w.shape[:-1]:
        out.append(rec("fail", contract, tags + ["shape"], "shapes %r %r %r" % (S2.shape, w2.shape, np.shape(shift))))
        return out
    for b in np.ndindex(*w.shape[:-1]):
        for k in range(spec.get("npoints", 5)):
            x = rs.randn(dim)
            lhs = -0.5 * float(np.sum((x @ S[b] - w[b]) ** 2))
            rhs = -0.5 * float(np.sum((x @ S2[b] - w2[b]) ** 2)) + float(np.asarray(shift)[b])
            if not close(lhs, rhs):
                out.append(rec("fail", contract, tags + ["value"], "batch %r x=%r: original %r compressed %r" % (b, x.tolist(), lhs, rhs)))
                return out
    out.append(rec("ok", contract, tags))
    return out


def case_extract_affine(spec):
    """contract of affine.extract_affine(fn):  fn(point) == const(point) + sum_k einsum(eqn_k, coeff_k(point), x_k),
    keys(coeffs) == affine_inputs(fn), const / coeffs do not depend on the affine inputs."""
    from funsor.affine import affine_inputs, extract_affine

    out = []
    rs = np.random.RandomState(spec["pseed"])
    e = spec["expr"]
    tags = ["extract_affine"] + sorted(ex_tags(e))
    contract = "affine.extract_affine"
    inputs = ex_inputs(e)
    try:
        fn = ex_build(e)
        const, coeffs = extract_affine(fn)
        aff = affine_inputs(fn)
    except NotImplementedError as ex:
        out.append(rec("declined", contract, tags, str(ex)))
        return out
    except Exception as ex:
        out.append(rec("fail", contract, tags + ["raises:" + type(ex).__name__], "%s: %s" % (type(ex).__name__, ex)))
        return out
    reals = {n for n, d in inputs.items() if d[0] == "real"}
    if set(coeffs) != set(aff):
        out.append(rec("fail", contract, tags + ["keys"], "coeff keys %r != affine_inputs %r" % (sorted(coeffs), sorted(aff))))
        return out
    if spec.get("expect_all_affine", True) and set(aff) != reals:
        # incompleteness of the affine test is allowed ("sound but incomplete"): the decomposition below then
        # still has to hold with the non-affine inputs left inside const/coeffs; we only note it.
        tags = tags + ["incomplete_affine_inputs"]
    for n in list(coeffs):
        if any(k in aff for k in coeffs[n][0].inputs) or any(k in aff for k in const.inputs):
            out.append(rec("fail", contract, tags + ["const_depends_on_affine_input"], "const/coeff mention an affine input"))
            return out
    for k in range(spec.get("npoints", 5)):
        p = rand_point(inputs, rs)
        want = ex_eval(e, p)
        rest = OrderedDict((n, d) for n, d in inputs.items() if n not in aff)
        cv = fs_value(const, rest, p)
        if cv is None:
            out.append(rec("declined", contract, tags, "const stays lazy"))
            return out
        got = np.array(cv, dtype=float)
        for n, (coeff, eqn) in coeffs.items():
            cf = fs_value(coeff, rest, p)
            if cf is None:
                out.append(rec("declined", contract, tags, "coeff stays lazy"))
                return out
            got = got + np.einsum(eqn, cf, np.asarray(p[n], dtype=float))
        if not close(got, want):
            out.append(rec("fail", contract, tags + ["value"], "point %r: reconstructed %r expected %r" % ({n: np.asarray(x).tolist() for n, x in p.items()}, np.asarray(got).tolist(), np.asarray(want).tolist())))
            return out
    out.append(rec("ok", contract, tags))
    return out


# ------------------------------------------------------------------------------------------------
# C13: dense closed forms (plain numpy, loops over batch elements)


class OracleUndefined(Exception):
    """the closed form does not exist (block not positive definite): outside the precondition"""


def logsumexp_np(a, axis=None):
    a = np.asarray(a, dtype=float)
    m = np.max(a, axis=axis, keepdims=True)
    m = np.where(np.isfinite(m), m, 0.0)
    r = np.log(np.sum(np.exp(a - m), axis=axis, keepdims=True)) + m
    return np.squeeze(r, axis=axis) if axis is not None else float(r.reshape(()))


class Dense:
    """a batch of quadratic forms  -1/2 x'Px + x'eta + c ; `mix` = batch names that are to be
    log-sum-exp'ed at evaluation time (a mixture that has been reduced over its component index)"""

    def __init__(self, ints, reals, P, eta, c, mix=()):
        self.ints = [(n, int(s)) for n, s in ints]
        self.reals = [(n, tuple(s)) for n, s in reals]
        self.P, self.eta, self.c = np.array(P, dtype=float), np.array(eta, dtype=float), np.array(c, dtype=float)
        self.mix = list(mix)

    @staticmethod
    def from_leaf(leaf):
        return Dense(*dense_leaf(leaf))

    @property
    def bshape(self):
        return tuple(s for _, s in self.ints)

    def blocks(self):
        out, off = OrderedDict(), 0
        for n, s in self.reals:
            out[n] = (off, off + prod(s))
            off += prod(s)
        return out

    def add_tensor(self, tspec):
        data = dec(tspec["data"])
        tin = [(n, int(s)) for n, s in tspec["inputs"]]
        ints = list(self.ints) + [(n, s) for n, s in tin if n not in dict(self.ints)]
        bshape = tuple(s for _, s in ints)
        D = self.P.shape[-1]
        P = np.zeros(bshape + (D, D))
        eta = np.zeros(bshape + (D,))
        c = np.zeros(bshape)
        names = [n for n, _ in ints]
        for b in np.ndindex(*bshape):
            bo = tuple(b[names.index(n)] for n, _ in self.ints)
            bt = tuple(b[names.index(n)] for n, _ in tin)
            P[b], eta[b], c[b] = self.P[bo], self.eta[bo], self.c[bo] + data[bt]
        return Dense(ints, self.reals, P, eta, c, self.mix)

    def marginalize(self, names):
        blocks = self.blocks()
        ib = np.concatenate([np.arange(*blocks[n]) for n, _ in self.reals if n in names]).astype(int)
        ia = np.concatenate([np.arange(*blocks[n]) for n, _ in self.reals if n not in names] + [np.zeros(0)]).astype(int)
        bshape = self.bshape
        P = np.zeros(bshape + (len(ia), len(ia)))
        eta = np.zeros(bshape + (len(ia),))
        c = np.zeros(bshape)
        for b in np.ndindex(*bshape):
            Pb = self.P[b]
            Pbb = Pb[np.ix_(ib, ib)]
            ev = np.linalg.eigvalsh(Pbb)
            if ev.min() <= 1e-9 * max(1.0, ev.max()):
                raise OracleUndefined("block not positive definite")
            Pab = Pb[np.ix_(ia, ib)]
            eb = self.eta[b][ib]
            sol = np.linalg.solve(Pbb, eb)
            P[b] = Pb[np.ix_(ia, ia)] - Pab @ np.linalg.solve(Pbb, Pab.T)
            eta[b] = self.eta[b][ia] - Pab @ sol
            c[b] = self.c[b] + 0.5 * float(eb @ sol) + 0.5 * len(ib) * LOG2PI - 0.5 * float(np.sum(np.log(ev)))
        return Dense(self.ints, [(n, s) for n, s in self.reals if n not in names], P, eta, c, self.mix)

    def _drop_axes(self, names, how):
        axes = tuple(k for k, (n, _) in enumerate(self.ints) if n in names)
        ints = [(n, s) for n, s in self.ints if n not in names]
        if how == "add":
            return Dense(ints, self.reals, self.P.sum(axes), self.eta.sum(axes), self.c.sum(axes), self.mix)
        assert not self.reals
        return Dense(ints, self.reals, self.P.sum(axes), self.eta.sum(axes), logsumexp_np(self.c, axes), [m for m in self.mix if m not in names])

    def reduce_int_logaddexp(self, names):
        if self.reals:
            return Dense(self.ints, self.reals, self.P, self.eta, self.c, self.mix + [n for n in names if n not in self.mix])
        return self._drop_axes(set(names) | set(self.mix), "logaddexp")

    def reduce_int_add(self, names):
        if self.mix:
            raise OracleUndefined("sum of a reduced mixture is not a quadratic form")
        return self._drop_axes(set(names), "add")

    def finish(self):
        if self.mix and not self.reals:
            return self._drop_axes(set(self.mix), "logaddexp")
        return self

    def moments(self, b):
        """(log Z, mean, covariance) of batch element b (requires P positive definite)"""
        P = self.P[b]
        ev = np.linalg.eigvalsh(P)
        if ev.min() <= 1e-9 * max(1.0, ev.max()):
            raise OracleUndefined("not positive definite")
        C_ = np.linalg.inv(P)
        m = C_ @ self.eta[b]
        logZ = self.c[b] + 0.5 * float(self.eta[b] @ m) + 0.5 * P.shape[0] * LOG2PI - 0.5 * float(np.sum(np.log(ev)))
        return logZ, m, C_

    def to_orc(self):
        d = self.finish()
        free = [(n, s) for n, s in d.ints if n not in d.mix]
        inputs = OrderedDict((n, ("int", s)) for n, s in free)
        for n, s in d.reals:
            inputs[n] = ("real", s)
        mixshape = tuple(s for n, s in d.ints if n in d.mix)

        def fn(p):
            x = flat_point(d.reals, p)
            vals = []
            for mb in np.ndindex(*mixshape):
                it = iter(mb)
                b = tuple(next(it) if n in d.mix else int(p[n]) for n, _ in d.ints)
                vals.append(float(-0.5 * x @ d.P[b] @ x + x @ d.eta[b] + d.c[b]))
            return vals[0] if not d.mix else float(logsumexp_np(np.array(vals), 0))

        return Orc(inputs, fn)


def split_kind(inputs, names):
    """which branch of gaussian._split_real_inputs a reduced subset exercises"""
    kinds = [(n in names) for n, d in inputs.items() if d[0] == "real"]
    if all(kinds):
        return "all_reals"
    first_t, last_t = kinds.index(True), len(kinds) - 1 - kinds[::-1].index(True)
    first_f, last_f = kinds.index(False), len(kinds) - 1 - kinds[::-1].index(False)
    return "contiguous" if (last_t < first_f or last_f < first_t) else "interleaved"


def case_reduce_program(spec):
    """C13: a program of reductions / pointwise evaluations on  leaf (+ tensor);  the postcondition compares
    the final result pointwise with the dense closed form (Schur complement, log-det term, log-sum-exp of the
    mixture, sum over plates); with "check_each" the intermediate results are compared as well."""
    out = []
    rs = np.random.RandomState(spec["pseed"])
    npts = spec.get("npoints", 5)
    ltags = leaf_tags(spec["leaf"])
    F = build_leaf(spec["leaf"])
    D = Dense.from_leaf(spec["leaf"])
    if spec.get("tensor") is not None:
        T = build_tensor(spec["tensor"])
        F = (T + F) if spec.get("tensor_side") == "left" else (F + T)
        D = D.add_tensor(spec["tensor"])
        ltags = ltags + ["mixture"]
    interp = spec.get("interpretation")
    deferred = OrderedDict()
    cur_inputs = OrderedDict(D.to_orc().inputs)
    for k, step in enumerate(spec["program"]):
        op = step["op"]
        last = k == len(spec["program"]) - 1
        tags = list(ltags)
        try:
            if op == "reduce":
                names = list(step["names"])
                rnames = [n for n in names if cur_inputs[n][0] == "real"]
                inames = [n for n in names if cur_inputs[n][0] == "int"]
                red = step["red"]
                if red == "logaddexp":
                    if rnames:
                        sk = split_kind(cur_inputs, rnames)
                        tags += ["reduce:logaddexp", "split:" + sk]
                        contract = "Gaussian.eager_reduce[logaddexp:%s]" % ("all_reals" if sk == "all_reals" else "partial")
                        D = D.marginalize(rnames)
                    else:
                        contract = "mixture.reduce[logaddexp:ints]"
                        tags += ["reduce:logaddexp:ints"]
                    if inames:
                        tags += ["reduce:ints_too"]
                        D = D.reduce_int_logaddexp(inames)
                else:
                    contract = "Gaussian.eager_reduce[add]"
                    tags += ["reduce:add"]
                    D = D.reduce_int_add(inames)
                for n in names:
                    del cur_inputs[n]
            elif op == "log_normalizer":
                contract = "Gaussian.log_normalizer"
                tags += ["log_normalizer"]
                D = D.marginalize([n for n, d in cur_inputs.items() if d[0] == "real"])
                cur_inputs = OrderedDict((n, d) for n, d in cur_inputs.items() if d[0] == "int")
            elif op == "subs":
                contract = "evaluate"
                tags += ["evaluate"]
                deferred.update(step["subs"])
            else:
                raise ValueError(op)
        except OracleUndefined as e:
            out.append(rec("declined", "precondition", tags, "generator produced a case outside the precondition: %s" % e))
            return out
        if k > 0:
            tags.append("after:" + "+".join(st["op"] if st["op"] != "reduce" else "reduce_" + st["red"] for st in spec["program"][:k]))
        try:
            if op == "reduce":
                fop = ops.logaddexp if step["red"] == "logaddexp" else ops.add
                if interp == "moment_matching":
                    from funsor.interpretations import moment_matching

                    with moment_matching:
                        F = F.reduce(fop, frozenset(step["names"]))
                else:
                    F = F.reduce(fop, frozenset(step["names"]))
            elif op == "log_normalizer":
                if not isinstance(F, Gaussian):
                    out.append(rec("declined", contract, tags, "value is not a Gaussian"))
                    return out
                F = F.log_normalizer
            elif op == "subs":
                kw = OrderedDict((n, val_build(vs, cur_inputs[n])) for n, vs in step["subs"].items())
                F = F(**kw)
                for n in step["subs"]:
                    del cur_inputs[n]
        except NotImplementedError as e:
            out.append(rec("declined", contract, tags, "NotImplementedError %s" % e))
            return out
        except Exception as e:
            out.append(rec("fail", contract, tags + ["raises:" + type(e).__name__], "on an input satisfying the precondition (rank >= dim of the integrated block, block well conditioned) step %d %r raised %s: %s" % (k, step, type(e).__name__, e)))
            out[-1]["step"] = k + 1
            return out
        if last or spec.get("check_each", True):
            O = D.to_orc()
            if deferred:
                O = orc_subs(O, OrderedDict((n, vs) for n, vs in deferred.items()))
            ok = check_pointwise(F, O, contract, tags, rs, npts, out)
            out[-1]["step"] = k + 1
            if not ok:
                return out
    return out


def case_deficient(spec):
    """C13 error clause: reducing (logaddexp) over a block whose precision block is rank deficient must raise
    (or stay lazy), never return finite numbers."""
    out = []
    F = build_leaf(spec["leaf"])
    tags = leaf_tags(spec["leaf"]) + ["deficient:" + spec["why"]]
    for extra in spec.get("add", []):
        F = F + build_leaf(extra)
    contract = "Gaussian.eager_reduce[logaddexp]:error_clause" if spec["via"] == "reduce" else "Gaussian.%s:error_clause" % spec["via"]
    try:
        if spec["via"] == "reduce":
            R = F.reduce(ops.logaddexp, frozenset(spec["names"]))
        elif spec["via"] == "log_normalizer":
            R = F.log_normalizer
        elif spec["via"] == "integrate_variable":
            n = spec["names"][0]
            R = Integrate(F, Variable(n, F.inputs[n]), frozenset(spec["names"]))
        elif spec["via"] == "sample":
            R = F.sample(frozenset(spec["names"]))
        else:
            raise ValueError(spec["via"])
    except Exception as e:
        out.append(rec("ok", contract, tags + ["raised:" + type(e).__name__]))
        return out
    # no exception: look at what came back
    datas = []

    def collect(x):
        if isinstance(x, Tensor):
            datas.append(np.asarray(x.data, dtype=float))
        elif isinstance(x, Gaussian):
            datas.append(np.asarray(x.white_vec, dtype=float))
            datas.append(np.asarray(x.prec_sqrt, dtype=float))
        elif isinstance(x, Number):
            datas.append(np.asarray(float(x.data)))
        elif isinstance(x, Funsor):
            for v in x._ast_values:
                collect(v)
        elif isinstance(x, (tuple, frozenset)):
            for v in x:
                collect(v)

    lazy = type(R).__name__.split("[")[0] in ("Reduce", "Integrate", "Subs") or (type(R).__name__.startswith("Contraction") and getattr(R, "reduced_vars", None))
    if lazy:
        out.append(rec("declined", contract, tags, "stays lazy (%s)" % type(R).__name__.split("[")[0]))
        return out
    collect(R)
    if datas and all(np.all(np.isfinite(d)) for d in datas):
        out.append(rec("fail", contract, tags + ["returns_number"], "no error: returned %s with finite data %r" % (type(R).__name__.split("[")[0], [d.tolist() for d in datas][:2])))
    else:
        out.append(rec("ok", contract, tags + ["returned_nonfinite"]))
    return out


def integrand_build(ig):
    t = ig["t"]
    if t == "var":
        return Variable(ig["name"], Reals[tuple(ig["shape"])])
    if t == "affine":
        return ex_build(ig["expr"])
    if t == "gaussian":
        return build_leaf(ig["leaf"])
    if t == "neg_gaussian":
        return -build_leaf(ig["leaf"])
    if t == "sum_gaussians":
        return build_leaf(ig["leaves"][0]) - build_leaf(ig["leaves"][1])
    raise ValueError(t)


def case_integrate(spec):
    """C13: Integrate(g, f, vars) == sum_{reduced ints} Z * E_{N(m, C)}[f]  with (Z, m, C) from the dense form."""
    out = []
    rs = np.random.RandomState(spec["pseed"])
    ig = spec["integrand"]
    tags = leaf_tags(spec["leaf"]) + ["integrand:" + ig["t"]]
    contract = "integrate.eager_integrate[Gaussian,%s]" % ig["t"]
    D = Dense.from_leaf(spec["leaf"])
    if spec.get("tensor") is not None:
        D = D.add_tensor(spec["tensor"])
        tags.append("mixture_measure")
        contract = "integrate.eager_integrate[GaussianMixture,%s]" % ig["t"]
    names = list(spec["names"])
    rnames = [n for n in names if n in dict(D.reals)]
    inames = [n for n in names if n in dict(D.ints)]
    if inames:
        tags.append("reduce:ints_too")
    blocks = D.blocks()
    assert set(rnames) == set(blocks), "only complete integration has a closed form here"
    # signature of the integrand
    if ig["t"] == "var":
        f_inputs = OrderedDict([(ig["name"], ("real", tuple(ig["shape"])))])
        out_shape = tuple(ig["shape"])
    elif ig["t"] == "affine":
        f_inputs = ex_inputs(ig["expr"])
        probe = {n: (np.zeros(d[1]) if d[0] == "real" else 0) for n, d in f_inputs.items()}
        out_shape = np.shape(ex_eval(ig["expr"], probe))
    else:
        leaves = ig["leaves"] if ig["t"] == "sum_gaussians" else [ig["leaf"]]
        f_inputs = OrderedDict()
        for l in leaves:
            f_inputs.update(leaf_inputs(l))
        out_shape = ()
    res_inputs = OrderedDict((n, ("int", s)) for n, s in D.ints if n not in inames)
    for n, d in f_inputs.items():
        if d[0] == "int" and n not in inames:
            res_inputs[n] = d
    if any(d[0] == "real" and n not in rnames for n, d in f_inputs.items()):
        raise AssertionError("generator: integrand has a free real input")

    def expect_one(p):
        b = tuple(int(p[n]) for n, _ in D.ints)
        logZ, m, C_ = D.moments(b)
        Z = math.exp(logZ)
        mp = dict(p)
        for n, s in D.reals:
            mp[n] = m[blocks[n][0] : blocks[n][1]].reshape(s)
        if ig["t"] == "var":
            return Z * mp[ig["name"]]
        if ig["t"] == "affine":
            return Z * ex_eval(ig["expr"], mp)
        tot = 0.0
        for sign, l in zip([1.0, -1.0] if ig["t"] == "sum_gaussians" else [(-1.0 if ig["t"] == "neg_gaussian" else 1.0)], leaves):
            ints2, reals2, P2, eta2, c2 = dense_leaf(l)
            b2 = tuple(int(p[n]) for n, _ in ints2)
            idx = np.concatenate([np.arange(*blocks[n]) for n, _ in reals2]).astype(int)
            ms, Cs = m[idx], C_[np.ix_(idx, idx)]
            tot += sign * (-0.5 * (float(np.trace(P2[b2] @ Cs)) + float(ms @ P2[b2] @ ms)) + float(ms @ eta2[b2]) + float(c2[b2]))
        return Z * tot

    def fn(p):
        red = [(n, s) for n, s in list(D.ints) + [(n, d[1]) for n, d in f_inputs.items() if d[0] == "int" and n not in dict(D.ints)] if n in inames]
        tot = 0.0
        for rb in np.ndindex(*[s for _, s in red]):
            q = dict(p)
            for (n, _), v in zip(red, rb):
                q[n] = v
            tot = tot + expect_one(q)
        return tot

    try:
        O = Orc(res_inputs, fn)
        O({n: 0 for n in res_inputs})
    except OracleUndefined as e:
        out.append(rec("declined", "precondition", tags, str(e)))
        return out
    try:
        G_ = build_leaf(spec["leaf"])
        if spec.get("tensor") is not None:
            G_ = build_tensor(spec["tensor"]) + G_
        f = integrand_build(ig)
        rv = frozenset(Variable(n, G_.inputs[n] if n in G_.inputs else f.inputs[n]) for n in names)
        R = Integrate(G_, f, rv)
    except NotImplementedError as e:
        out.append(rec("declined", contract, tags, "NotImplementedError %s" % e))
        return out
    except Exception as e:
        out.append(rec("fail", contract, tags + ["raises:" + type(e).__name__], "full-rank measure, complete integration: raised %s: %s" % (type(e).__name__, e)))
        return out
    if not isinstance(R, (Tensor, Number)):
        out.append(rec("declined", contract, tags, "stays lazy (%s)" % type(R).__name__.split("[")[0]))
        return out
    check_pointwise(R, O, contract, tags, rs, spec.get("npoints", 5), out, out_shape=tuple(out_shape))
    return out


def case_moment_matching(spec):
    """C13: under moment_matching,  (t + g).reduce(logaddexp, ints)  is the single Gaussian with the total mass,
    mean and covariance of the mixture:  result(x) == log M + log N(x; mean, cov)."""
    from funsor.interpretations import moment_matching

    out = []
    rs = np.random.RandomState(spec["pseed"])
    tags = leaf_tags(spec["leaf"]) + ["moment_matching"]
    contract = "joint.moment_matching_contract_joint"
    D = Dense.from_leaf(spec["leaf"]).add_tensor(spec["tensor"])
    names = list(spec["names"])
    inames = [n for n in names if n in dict(D.ints)]
    rnames = [n for n in names if n in dict(D.reals)]
    if rnames:
        tags.append("exact_vars")
    kept = [(n, s) for n, s in D.ints if n not in inames]
    red = [(n, s) for n, s in D.ints if n in inames]
    reals_left = [(n, s) for n, s in D.reals if n not in rnames]
    inputs = OrderedDict((n, ("int", s)) for n, s in kept)
    for n, s in reals_left:
        inputs[n] = ("real", s)
    try:
        Dm = D.marginalize(rnames) if rnames else D
        if reals_left:
            for b in np.ndindex(*Dm.bshape):
                Dm.moments(b)
    except OracleUndefined as e:
        out.append(rec("declined", "precondition", tags, str(e)))
        return out

    def fn(p):
        if not reals_left:
            vals = []
            for rb in np.ndindex(*[s for _, s in red]):
                it = iter(rb)
                b = tuple(next(it) if n in inames else int(p[n]) for n, _ in Dm.ints)
                vals.append(Dm.c[b])
            return float(logsumexp_np(np.array(vals), 0))
        comps = []
        for rb in np.ndindex(*[s for _, s in red]):
            it = iter(rb)
            b = tuple(next(it) if n in inames else int(p[n]) for n, _ in Dm.ints)
            comps.append(Dm.moments(b))
        logw = np.array([c[0] for c in comps])
        logM = float(logsumexp_np(logw, 0))
        w = np.exp(logw - logM)
        mean = sum(wi * c[1] for wi, c in zip(w, comps))
        cov = sum(wi * (c[2] + np.outer(c[1] - mean, c[1] - mean)) for wi, c in zip(w, comps))
        x = flat_point(reals_left, p)
        ev = np.linalg.eigvalsh(cov)
        d = x - mean
        return logM - 0.5 * float(d @ np.linalg.solve(cov, d)) - 0.5 * len(x) * LOG2PI - 0.5 * float(np.sum(np.log(ev)))

    O = Orc(inputs, fn)
    try:
        G_ = build_leaf(spec["leaf"])
        T = build_tensor(spec["tensor"])
        with moment_matching:
            R = (T + G_).reduce(ops.logaddexp, frozenset(names))
    except NotImplementedError as e:
        out.append(rec("declined", contract, tags, "NotImplementedError %s" % e))
        return out
    except Exception as e:
        out.append(rec("fail", contract, tags + ["raises:" + type(e).__name__], "full-rank mixture: raised %s: %s" % (type(e).__name__, e)))
        return out
    if type(R).__name__.split("[")[0] == "Contraction" and R.reduced_vars:
        out.append(rec("declined", contract, tags, "stays lazy"))
        return out
    check_pointwise(R, O, contract, tags, rs, spec.get("npoints", 5), out)
    return out


# ------------------------------------------------------------------------------------------------
# C14: Delta semantics


def dyadic(rs, shape=()):
    return rs.randint(-16, 17, size=shape) / 8.0


def delta_parts(spec):
    name = spec["name"]
    dom = ("int", int(spec["dom"][1])) if spec["dom"][0] == "int" else ("real", tuple(spec["dom"][1]))
    pv, ld = spec["point"], spec["log_density"]
    inputs = OrderedDict([(name, dom)])
    inputs.update(val_inputs(pv, dom))
    point_f = val_build(pv, dom)
    if not isinstance(point_f, Funsor):
        point_f = funsor.to_funsor(point_f, dom_to_funsor(dom))
    tags = ["delta", "point:" + pv["t"], "var:" + ("bint" if dom[0] == "int" else "real%s" % (list(dom[1]),))]
    if ld is None:  # two-argument constructor: unit mass
        return name, dom, inputs, point_f, None, tags + ["log_density:default"]
    own = [n for n in val_inputs(ld, ("real", ())) if n not in inputs]
    inputs.update(val_inputs(ld, ("real", ())))
    ld_f = val_build(ld, ("real", ()))
    if not isinstance(ld_f, Funsor):
        ld_f = funsor.to_funsor(ld_f)
    tags.append("log_density:" + ld["t"])
    if own:
        tags.append("log_density_has_own_inputs")
    return name, dom, inputs, point_f, ld_f, tags


def ld_eval(ld, p):
    return 0.0 if ld is None else float(val_eval(ld, p))


def make_delta(name, point_f, ld_f):
    return Delta(name, point_f) if ld_f is None else Delta(name, point_f, ld_f)


def dyadic_point(inputs, rs):
    p = {}
    for n, d in inputs.items():
        p[n] = int(rs.randint(d[1])) if d[0] == "int" else np.asarray(dyadic(rs, d[1]), dtype=float)
    return p


def case_delta_eval(spec):
    """C14: Delta(name, point, log_density)(everything at a point) == log_density if value == point else -inf.
    Evaluated on and off the support, with three styles of passing the values."""
    out = []
    rs = np.random.RandomState(spec["pseed"])
    name, dom, inputs, point_f, ld_f, tags = delta_parts(spec)
    contract = "Delta.eager_subs"
    try:
        d = make_delta(name, point_f, ld_f)
    except Exception as e:
        out.append(rec("fail", "Delta.__init__", tags + ["raises:" + type(e).__name__], "%s: %s" % (type(e).__name__, e)))
        return out
    pv, ld = spec["point"], spec["log_density"]

    def fn(p):
        return ld_eval(ld, p) if np.array_equal(np.asarray(p[name]), np.asarray(val_eval(pv, p))) else -math.inf

    O = Orc(inputs, fn)
    if fs_inputs(d) != dict(inputs):
        out.append(rec("fail", "Delta.__init__", tags + ["inputs"], "inputs %r != expected %r" % (fs_inputs(d), dict(inputs))))
        return out
    points = []
    for k in range(6):
        p = dyadic_point(inputs, rs)
        at = val_eval(pv, p)
        if k % 2 == 0:
            p[name] = int(at) if dom[0] == "int" else np.asarray(at, dtype=float)
        else:
            if dom[0] == "int":
                p[name] = (int(at) + 1 + int(rs.randint(max(dom[1] - 1, 1)))) % dom[1]
            else:
                off = np.zeros(dom[1])
                off.reshape(-1)[rs.randint(off.size)] = 1.0
                p[name] = np.asarray(at, dtype=float) + off
        points.append(p)
    # style 1: all points stacked / one by one with Tensor values (check_pointwise does both when needed)
    check_pointwise(d, O, contract, tags + ["value:tensor"], rs, 6, out, points=points)
    # style 2: funsor Numbers (ints) and Tensors (reals), one point at a time
    # style 3: python numbers for scalar domains
    for style in ("number", "python"):
        stags = tags + ["value:" + style]
        scalar = all(dd[0] == "int" or dd[1] == () for dd in inputs.values())
        if not scalar:
            continue
        bad = None
        for p in points:
            kw = {}
            for n, dd in inputs.items():
                if style == "number":
                    kw[n] = Number(int(p[n]), dd[1]) if dd[0] == "int" else Number(float(p[n]))
                else:
                    kw[n] = int(p[n]) if dd[0] == "int" else float(p[n])
            try:
                r = d(**kw)
                if not isinstance(r, (Tensor, Number)) or r.inputs:
                    r = reinterpret(r)
                if not isinstance(r, (Tensor, Number)) or r.inputs:
                    bad = ("declined", "stays lazy")
                    break
                v = float(np.asarray(r.data))
            except Exception as e:
                bad = ("fail", "evaluating at %r raised %s: %s" % (fmt_point(p), type(e).__name__, e), "raises:" + type(e).__name__)
                break
            if not close(v, O(p)):
                bad = ("fail", "at %r: funsor %r expected %r" % (fmt_point(p), v, O(p)), "value")
                break
        if bad is None:
            out.append(rec("ok", contract, stags))
        elif bad[0] == "declined":
            out.append(rec("declined", contract, stags, bad[1]))
        else:
            out.append(rec("fail", contract, stags + [bad[2]], bad[1]))
    return out


def f_parts(fs):
    """an integrand / summand f: (funsor, oracle, out_shape, tag)"""
    t = fs["t"]
    if t == "leaf":
        return build_leaf(fs["leaf"]), orc_leaf(fs["leaf"]), (), "f:gaussian"
    if t == "tensor":
        return build_tensor(fs["tensor"]), orc_tensor(fs["tensor"]), (), "f:tensor"
    if t == "expr":
        e = fs["expr"]
        inputs = ex_inputs(e)
        probe = {n: (np.zeros(d[1]) if d[0] == "real" else 0) for n, d in inputs.items()}
        shape = np.shape(ex_eval(e, probe))
        return ex_build(e), Orc(inputs, lambda p, e=e: ex_eval(e, p)), tuple(shape), "f:expr"
    raise ValueError(t)


def case_delta_reduce(spec):
    """C14: (Delta + f).reduce(logaddexp, name) == f(name=point) + log_density ;  Integrate(Delta, f, name) ==
    exp(log_density) * f(name=point)."""
    out = []
    rs = np.random.RandomState(spec["pseed"])
    name, dom, dinputs, point_f, ld_f, tags = delta_parts(spec)
    f, fo, fshape, ftag = f_parts(spec["f"])
    tags = tags + [ftag, "via:" + spec["via"]]
    pv, ld = spec["point"], spec["log_density"]
    fsub = orc_subs(fo, {name: pv}) if name in fo.inputs else fo
    inputs = OrderedDict(fsub.inputs)
    for n, dd in dinputs.items():
        if n != name:
            inputs[n] = dd
    if spec["via"] == "integrate":
        contract = "integrate.eager_integrate[Delta]"
        O = Orc(inputs, lambda p: math.exp(ld_eval(ld, p)) * np.asarray(fsub(p)))
    else:
        contract = "Delta.eager_reduce[logaddexp]"
        O = Orc(inputs, lambda p: float(fsub(p)) + ld_eval(ld, p))
    unit = ld is None or (ld["t"] in ("num_real", "py_float") and float(ld["v"]) == 0.0)
    assert unit, "the reduce / integrate contracts of C14 are stated for unit-mass Deltas only"
    try:
        d = make_delta(name, point_f, ld_f)
        if spec["via"] == "integrate":
            R = Integrate(d, f, frozenset([Variable(name, dom_to_funsor(dom))]))
        elif spec["via"] == "reduce_left":
            R = (d + f).reduce(ops.logaddexp, name)
        else:
            R = (f + d).reduce(ops.logaddexp, name)
    except Exception as e:
        out.append(rec("fail", contract, tags + ["raises:" + type(e).__name__], "%s: %s" % (type(e).__name__, e)))
        return out
    check_pointwise(R, O, contract, tags, rs, spec.get("npoints", 5), out, out_shape=fshape if spec["via"] == "integrate" else ())
    return out


# ------------------------------------------------------------------------------------------------
# C14: sampling


def materialize(F, inputs):
    """values of F on the full grid of its (all-integer) inputs, by one stacked substitution -> array of shape sizes"""
    names = list(inputs)
    sizes = [inputs[n][1] for n in names]
    grid = list(np.ndindex(*sizes))
    points = [dict(zip(names, g)) for g in grid]
    if not points:
        points = [{}]
    vals = fs_values(F, inputs, points)
    if vals is None:
        vals = np.array([fs_value(F, inputs, p) for p in points], dtype=float)
    return np.asarray(vals, dtype=float).reshape(tuple(sizes))


def case_tensor_sample(spec):
    """C14 for Tensor.sample: inputs/output, support, exact mass identity per batch element and particle,
    determinism under the numpy seed; also funsor's own reduction of the sample over the sampled variables."""
    out = []
    tspec = spec["tensor"]
    data = dec(tspec["data"])
    tin = OrderedDict((n, ("int", int(s))) for n, s in tspec["inputs"])
    sin = OrderedDict((n, ("int", int(s))) for n, s in spec["sample_inputs"])
    sampled = list(spec["sampled"])
    tags = ["tensor_sample", "sampled:%d/%d" % (len(sampled), len(tin)), "sample_inputs:%d" % len(sin)]
    if np.any(np.all(np.isneginf(np.moveaxis(data, [list(tin).index(n) for n in sampled], list(range(len(sampled)))).reshape((-1,) + tuple(s for n, (_, s) in tin.items() if n not in sampled))), axis=0)):
        tags.append("row_all_neginf")
    contract = "Tensor._sample"
    T = build_tensor(tspec)
    fsin = OrderedDict((n, Bint[s]) for n, (_, s) in sin.items())

    def draw():
        np.random.seed(spec["npseed"])
        with np.errstate(all="ignore"):
            return T.sample(frozenset(sampled), fsin.copy())

    try:
        R = draw()
    except NotImplementedError as e:
        out.append(rec("declined", contract, tags, "NotImplementedError %s" % e))
        return out
    except Exception as e:
        out.append(rec("fail", contract, tags + ["raises:" + type(e).__name__], "%s: %s" % (type(e).__name__, e)))
        return out
    all_in = OrderedDict(sin)
    all_in.update(tin)
    if fs_inputs(R) != dict(all_in) or R.output != Real:
        out.append(rec("fail", contract, tags + ["inputs"], "inputs %r output %r; expected inputs %r output Real" % (fs_inputs(R), R.output, dict(all_in))))
        return out
    with np.errstate(all="ignore"):
        S = materialize(R, all_in)  # axes: sample inputs, then tensor inputs
    ns = len(sin)
    axes = tuple(ns + list(tin).index(n) for n in sampled)
    full = np.broadcast_to(data, S.shape)
    # support
    if np.any(np.isnan(S)) or np.any((S > -math.inf) & np.isneginf(full)):
        out.append(rec("fail", contract, tags + ["support"], "the sample has mass where the tensor is -inf (or is nan): sample %r tensor %r" % (S.tolist(), data.tolist())))
        return out
    with np.errstate(all="ignore"):
        count = np.sum(S > -math.inf, axis=axes)
        mass_s = logsumexp_np(S, axes)
        mass_t = logsumexp_np(full, axes)
    if np.any(count > 1):
        out.append(rec("fail", contract, tags + ["support"], "more than one sampled point for one particle / batch element"))
        return out
    if not close(mass_s, mass_t):
        out.append(rec("fail", contract, tags + ["mass"], "total mass over the sampled variables: sample %r original %r" % (mass_s.tolist(), mass_t.tolist())))
        return out
    nontrivial = bool(np.any(np.sum(np.isfinite(full), axis=axes) > 1))
    out.append(rec("ok", contract, tags, nontrivial=nontrivial))
    # determinism
    R2 = draw()
    with np.errstate(all="ignore"):
        S2 = materialize(R2, all_in)
    if not np.array_equal(S, S2):
        out.append(rec("fail", "Tensor._sample:deterministic", tags + ["determinism"], "two draws with the same numpy seed differ"))
    else:
        out.append(rec("ok", "Tensor._sample:deterministic", tags, nontrivial=nontrivial))
    # funsor's own reduction of the sample
    rest = OrderedDict((n, d) for n, d in all_in.items() if n not in sampled)
    try:
        with np.errstate(all="ignore"):
            Rm = R.reduce(ops.logaddexp, frozenset(sampled))
            M = materialize(Rm, rest) if fs_inputs(Rm) == dict(rest) else None
    except NotImplementedError as e:
        out.append(rec("declined", "Delta.eager_reduce[sample]", tags, str(e)))
        return out
    except Exception as e:
        out.append(rec("fail", "Delta.eager_reduce[sample]", tags + ["raises:" + type(e).__name__], "%s: %s" % (type(e).__name__, e)))
        return out
    if M is None:
        out.append(rec("fail", "Delta.eager_reduce[sample]", tags + ["inputs"], "inputs of sample.reduce(logaddexp, sampled) %r != %r" % (fs_inputs(Rm), dict(rest))))
    elif not close(M, mass_t):
        out.append(rec("fail", "Delta.eager_reduce[sample]", tags + ["mass"], "sample.reduce(logaddexp, sampled) = %r, original mass %r" % (M.tolist(), mass_t.tolist())))
    else:
        out.append(rec("ok", "Delta.eager_reduce[sample]", tags, nontrivial=nontrivial))
    return out


def case_mc_tensor(spec):
    """C14 for montecarlo.MonteCarlo: under the interpretation, Integrate(t, f, vars) equals
    sum_v exp(sample(v)) f(v) for the sample drawn with the same numpy seed."""
    from funsor.montecarlo import MonteCarlo

    out = []
    tspec = spec["tensor"]
    tin = OrderedDict((n, ("int", int(s))) for n, s in tspec["inputs"])
    sin = OrderedDict((n, ("int", int(s))) for n, s in spec["sample_inputs"])
    sampled = list(spec["sampled"])
    tags = ["montecarlo", "sampled:%d/%d" % (len(sampled), len(tin)), "sample_inputs:%d" % len(sin)]
    contract = "montecarlo.monte_carlo_integrate"
    T = build_tensor(tspec)
    f, fo, fshape, ftag = f_parts(spec["f"])
    fsin = OrderedDict((n, Bint[s]) for n, (_, s) in sin.items())
    rv = frozenset(sampled)
    try:
        np.random.seed(spec["npseed"])
        with np.errstate(all="ignore"):
            with MonteCarlo(**fsin):
                R = Integrate(T, f, rv)
            np.random.seed(spec["npseed"])
            Smp = T.sample(rv, fsin.copy())
    except NotImplementedError as e:
        out.append(rec("declined", contract, tags, "NotImplementedError %s" % e))
        return out
    except Exception as e:
        out.append(rec("fail", contract, tags + ["raises:" + type(e).__name__], "%s: %s" % (type(e).__name__, e)))
        return out
    all_in = OrderedDict(sin)
    all_in.update(tin)
    with np.errstate(all="ignore"):
        S = materialize(Smp, all_in)
    fin = OrderedDict((n, d) for n, d in fo.inputs.items())
    res_in = OrderedDict((n, d) for n, d in all_in.items() if n not in sampled)
    for n, d in fin.items():
        if n not in sampled and n not in res_in:
            res_in[n] = d

    def fn(p):
        tot = 0.0
        for v in np.ndindex(*[tin[n][1] for n in sampled]):
            q = dict(p)
            q.update(zip(sampled, v))
            w = S[tuple(q[n] for n in all_in)]
            if w > -math.inf:
                tot = tot + math.exp(w) * np.asarray(fo(q))
        return tot

    O = Orc(res_in, fn)
    if not isinstance(R, (Tensor, Number)):
        R = reinterpret(R)
    if not isinstance(R, (Tensor, Number)):
        out.append(rec("declined", contract, tags, "stays lazy (%s)" % type(R).__name__.split("[")[0]))
        return out
    rs = np.random.RandomState(spec["pseed"])
    check_pointwise(R, O, contract, tags, rs, 6, out, out_shape=fshape)
    return out


def case_gaussian_sample(spec):
    """C14 for Gaussian.sample: inputs/output, finite sample points, exact mass identity (integral of the sample over
    the sampled variables == closed-form marginal for every batch element and particle), determinism, and for
    reparametrised samples: affine in the noise with the (conditional) mean and covariance of the Gaussian."""
    from funsor.montecarlo import extract_samples

    out = []
    rs = np.random.RandomState(spec["pseed"])
    leaf = spec["leaf"]
    D = Dense.from_leaf(leaf)
    li = leaf_inputs(leaf)
    sampled = list(spec["sampled"])
    mode = spec["mode"]
    tags = leaf_tags(leaf) + ["gaussian_sample", "sampled:%d/%d" % (len(sampled), len(D.reals)), "split:" + split_kind(li, sampled)]
    contract = "Gaussian._sample"
    blocks = D.blocks()
    dim_a = sum(blocks[n][1] - blocks[n][0] for n in sampled)
    if mode == "reparam":
        sin = OrderedDict([("noise", ("real", D.bshape + (dim_a,)))])
        tags.append("sample_inputs:reparam")
    else:
        sin = OrderedDict((n, ("int", int(s))) for n, s in mode)
        tags.append("sample_inputs:%d" % len(sin))
    fsin = OrderedDict((n, dom_to_funsor(d)) for n, d in sin.items())
    G_ = build_leaf(leaf)
    if not isinstance(G_, Gaussian):
        out.append(rec("declined", contract, tags, "leaf is not a plain Gaussian"))
        return out
    try:
        Dm = D.marginalize(sampled)
    except OracleUndefined as e:
        out.append(rec("declined", "precondition", tags, str(e)))
        return out

    def draw():
        np.random.seed(spec["npseed"])
        return G_.sample(frozenset(sampled), fsin.copy())

    try:
        R = draw()
    except NotImplementedError as e:
        out.append(rec("declined", contract, tags, "NotImplementedError %s" % e))
        return out
    except Exception as e:
        out.append(rec("fail", contract, tags + ["raises:" + type(e).__name__], "rank >= dim of the sampled block, well conditioned: raised %s: %s" % (type(e).__name__, e)))
        return out
    all_in = OrderedDict(li)
    for n, d in sin.items():
        all_in[n] = d
    if fs_inputs(R) != dict(all_in) or R.output != Real:
        out.append(rec("fail", contract, tags + ["inputs"], "inputs %r output %r; expected inputs %r output Real" % (fs_inputs(R), R.output, dict(all_in))))
        return out
    # mass: integrate the sample over the sampled variables
    Om = Dm.to_orc()
    rest_in = OrderedDict(Om.inputs)
    for n, d in sin.items():
        rest_in[n] = d
    Om2 = Orc(rest_in, Om.fn)
    try:
        Rm = R.reduce(ops.logaddexp, frozenset(sampled))
    except NotImplementedError as e:
        out.append(rec("declined", contract, tags, "reduce of the sample: NotImplementedError %s" % e))
        return out
    except Exception as e:
        out.append(rec("fail", contract, tags + ["mass", "raises:" + type(e).__name__], "sample.reduce(logaddexp, sampled) raised %s: %s" % (type(e).__name__, e)))
        return out
    if not check_pointwise(Rm, Om2, contract, tags + ["mass"], rs, 5, out):
        return out
    # sample points
    try:
        pts = extract_samples(R)
    except Exception as e:
        out.append(rec("fail", "montecarlo.extract_samples", tags + ["raises:" + type(e).__name__], "%s: %s" % (type(e).__name__, e)))
        return out
    if set(pts) != set(sampled):
        out.append(rec("fail", "montecarlo.extract_samples", tags + ["names"], "extracted %r, sampled %r" % (sorted(pts), sorted(sampled))))
        return out
    rest_reals = [(n, s) for n, s in D.reals if n not in sampled]
    ia = np.concatenate([np.arange(*blocks[n]) for n in sampled if False] + [np.arange(*blocks[n]) for n, _ in D.reals if n in sampled]).astype(int)
    ib = np.concatenate([np.arange(*blocks[n]) for n, _ in rest_reals] + [np.zeros(0)]).astype(int)
    order = [n for n, _ in D.reals if n in sampled]

    def sample_vec(p):
        """concatenated sample point (declaration order of the sampled inputs) at the full point p of the other inputs"""
        parts = []
        for n in order:
            pin = OrderedDict((k, d) for k, d in rest_in.items() if k in pts[n].inputs)
            v = fs_value(pts[n], pin, p)
            if v is None:
                return None
            parts.append(np.asarray(v, dtype=float).reshape(-1))
        return np.concatenate(parts)

    def cond(p):
        b = tuple(int(p[n]) for n, _ in D.ints)
        P = D.P[b]
        Paa = P[np.ix_(ia, ia)]
        xb = flat_point(rest_reals, p)
        rhs = D.eta[b][ia] - (P[np.ix_(ia, ib)] @ xb if len(ib) else 0.0)
        return np.linalg.solve(Paa, rhs), np.linalg.inv(Paa)

    p0 = rand_point(rest_in, rs)
    if mode == "reparam":
        ctr = "Gaussian._sample:reparametrised"
        rtags = tags + ["reparam"]
        nshape = sin["noise"][1]
        b = tuple(int(p0[n]) for n, _ in D.ints)

        def at(noise):
            q = dict(p0)
            q["noise"] = noise
            return sample_vec(q)

        try:
            base = at(np.zeros(nshape))
            if base is None:
                out.append(rec("declined", ctr, rtags, "sample point stays lazy"))
                return out
            mean, cov = cond(p0)
            n1, n2 = rs.randn(*nshape), rs.randn(*nshape)
            f1, f2, f12 = at(n1), at(n2), at(n1 + n2)
            A = np.zeros((dim_a, dim_a))
            for k in range(dim_a):
                e = np.zeros(nshape)
                e[b + (k,)] = 1.0
                A[:, k] = at(e) - base
        except Exception as e:
            out.append(rec("fail", ctr, rtags + ["raises:" + type(e).__name__], "evaluating the reparametrised sample raised %s: %s" % (type(e).__name__, e)))
            return out
        if not close(f12 - base, (f1 - base) + (f2 - base)):
            out.append(rec("fail", ctr, rtags + ["affine"], "sample is not affine in the noise"))
        elif not close(f1 - base, A @ n1[b]):
            out.append(rec("fail", ctr, rtags + ["affine", "cross_batch"], "sample of batch element %r depends on noise of other batch elements" % (b,)))
        elif not close(base, mean):
            out.append(rec("fail", ctr, rtags + ["mean"], "sample(noise=0) = %r, mean %r" % (base.tolist(), mean.tolist())))
        elif not close(A @ A.T, cov):
            out.append(rec("fail", ctr, rtags + ["covariance"], "L L' = %r, covariance %r" % ((A @ A.T).tolist(), cov.tolist())))
        else:
            out.append(rec("ok", ctr, rtags))
        return out
    # eager noise: finite points, determinism
    v = sample_vec(p0)
    if v is None:
        out.append(rec("declined", "Gaussian._sample:points", tags, "sample point stays lazy"))
        return out
    if not np.all(np.isfinite(v)):
        out.append(rec("fail", "Gaussian._sample:points", tags + ["support"], "non-finite sample point %r" % (v.tolist(),)))
        return out
    R2 = draw()
    pts2 = extract_samples(R2)
    pts_old, pts = pts, pts2
    v2 = sample_vec(p0)
    if not np.array_equal(v, v2):
        out.append(rec("fail", "Gaussian._sample:deterministic", tags + ["determinism"], "two draws with the same numpy seed differ: %r %r" % (v.tolist(), v2.tolist())))
    else:
        out.append(rec("ok", "Gaussian._sample:deterministic", tags))
    return out


def case_mixture_sample(spec):
    """C14 (Contraction._sample): sampling the mixture t + g over some of its integer / real inputs keeps inputs and
    output and preserves the total mass once the sampled variables AND all real inputs are summed / integrated out
    (for a mixture the identity does not hold pointwise in the remaining real inputs, so it is not asserted there)."""
    out = []
    rs = np.random.RandomState(spec["pseed"])
    leaf = spec["leaf"]
    D = Dense.from_leaf(leaf).add_tensor(spec["tensor"])
    sampled = list(spec["sampled"])
    sin = OrderedDict((n, ("int", int(s))) for n, s in spec["sample_inputs"])
    fsin = OrderedDict((n, Bint[s]) for n, (_, s) in sin.items())
    rnames = [n for n, _ in D.reals]
    s_ints = [n for n in sampled if n in dict(D.ints)]
    s_reals = [n for n in sampled if n in rnames]
    tags = leaf_tags(leaf) + ["mixture_sample", "sampled_ints:%d" % len(s_ints), "sampled_reals:%d/%d" % (len(s_reals), len(rnames)), "sample_inputs:%d" % len(sin)]
    contract = "Contraction._sample[mixture]"
    try:
        Dm = D.marginalize(rnames)
        if s_ints:
            Dm = Dm.reduce_int_logaddexp(s_ints)
    except OracleUndefined as e:
        out.append(rec("declined", "precondition", tags, str(e)))
        return out
    X = build_tensor(spec["tensor"]) + build_leaf(leaf)
    try:
        np.random.seed(spec["npseed"])
        with np.errstate(all="ignore"):
            R = X.sample(frozenset(sampled), fsin.copy())
    except NotImplementedError as e:
        out.append(rec("declined", contract, tags, "NotImplementedError %s" % e))
        return out
    except Exception as e:
        if isinstance(e, ValueError) and "intentionally not implemented" in str(e):
            # gaussian.Gaussian._sample documents this refusal (integer input of the Gaussian that the Tensor lacks)
            out.append(rec("declined", contract, tags, "ValueError %s" % e))
            return out
        out.append(rec("fail", contract, tags + ["raises:" + type(e).__name__], "full-rank mixture: raised %s: %s" % (type(e).__name__, e)))
        return out
    all_in = OrderedDict(fs_inputs(X))
    all_in.update(sin)
    if fs_inputs(R) != dict(all_in) or R.output != Real:
        out.append(rec("fail", contract, tags + ["inputs"], "inputs %r output %r; expected inputs %r output Real" % (fs_inputs(R), R.output, dict(all_in))))
        return out
    Om = Dm.to_orc()
    rest = OrderedDict(Om.inputs)
    rest.update(sin)
    try:
        Rm = R.reduce(ops.logaddexp, frozenset(sampled) | frozenset(rnames))
    except NotImplementedError as e:
        out.append(rec("declined", contract, tags, "reduce of the sample: NotImplementedError %s" % e))
        return out
    except Exception as e:
        out.append(rec("fail", contract, tags + ["mass", "raises:" + type(e).__name__], "sample.reduce(logaddexp, sampled + reals) raised %s: %s" % (type(e).__name__, e)))
        return out
    check_pointwise(Rm, Orc(rest, Om.fn), contract, tags + ["mass"], rs, 5, out)
    return out


def case_mc_gaussian(spec):
    """C14 for montecarlo.MonteCarlo with a Gaussian measure: Integrate(g, f, all reals) under the interpretation equals
    Z * f(sample point) for the sample drawn with the same numpy seed (Z from the dense closed form)."""
    from funsor.montecarlo import MonteCarlo, extract_samples

    out = []
    rs = np.random.RandomState(spec["pseed"])
    leaf = spec["leaf"]
    D = Dense.from_leaf(leaf)
    names = [n for n, _ in D.reals]
    sin = OrderedDict((n, ("int", int(s))) for n, s in spec["sample_inputs"])
    fsin = OrderedDict((n, Bint[s]) for n, (_, s) in sin.items())
    f, fo, fshape, ftag = f_parts(spec["f"])
    tags = leaf_tags(leaf) + ["montecarlo", ftag, "sample_inputs:%d" % len(sin)]
    contract = "montecarlo.monte_carlo_integrate[Gaussian]"
    try:
        Dm = D.marginalize(names)
    except OracleUndefined as e:
        out.append(rec("declined", "precondition", tags, str(e)))
        return out
    G_ = build_leaf(leaf)
    rv = frozenset(names)
    try:
        np.random.seed(spec["npseed"])
        with MonteCarlo(**fsin):
            R = Integrate(G_, f, rv)
        np.random.seed(spec["npseed"])
        Smp = G_.sample(rv, fsin.copy())
        pts = extract_samples(Smp)
    except NotImplementedError as e:
        out.append(rec("declined", contract, tags, "NotImplementedError %s" % e))
        return out
    except Exception as e:
        out.append(rec("fail", contract, tags + ["raises:" + type(e).__name__], "%s: %s" % (type(e).__name__, e)))
        return out
    if not isinstance(R, (Tensor, Number)):
        R = reinterpret(R)
    if not isinstance(R, (Tensor, Number)):
        out.append(rec("declined", contract, tags, "stays lazy (%s)" % type(R).__name__.split("[")[0]))
        return out
    res_in = OrderedDict(sin)
    for n, sz in D.ints:
        res_in[n] = ("int", sz)
    for n, d in fo.inputs.items():
        if d[0] == "int":
            res_in[n] = d
    Om = Dm.to_orc()

    def fn(p):
        q = dict(p)
        for n in names:
            pin = OrderedDict((k, d) for k, d in res_in.items() if k in pts[n].inputs)
            q[n] = fs_value(pts[n], pin, p)
        return math.exp(Om(p)) * np.asarray(fo(q))

    check_pointwise(R, Orc(res_in, fn), contract, tags, rs, 5, out, out_shape=fshape)
    return out


CASES = {
    "chain": case_chain,
    "compress_rank": case_compress_rank,
    "extract_affine": case_extract_affine,
    "reduce_program": case_reduce_program,
    "deficient": case_deficient,
    "integrate": case_integrate,
    "moment_matching": case_moment_matching,
    "delta_eval": case_delta_eval,
    "delta_reduce": case_delta_reduce,
    "tensor_sample": case_tensor_sample,
    "mc_tensor": case_mc_tensor,
    "gaussian_sample": case_gaussian_sample,
    "mc_gaussian": case_mc_gaussian,
    "mixture_sample": case_mixture_sample,
}


def run_case(spec):
    np.random.seed(spec.get("npseed", 0))
    return CASES[spec["kind"]](spec)
